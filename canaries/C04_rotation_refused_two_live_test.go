// path: seat_manager/zz_canary_c04b_test.go
// Canary for the recorded C04 finding "rotation refused although two seated-in players have chips".
// While the finding is open this test FAILS.
package seat_manager

import "testing"

func TestCanaryC04RotationNotRefusedWithTwoLivePlayers(t *testing.T) {
	sm := NewSeatManager(9, Rule_Default).(*seatManager)
	must := func(err error) {
		if err != nil {
			t.Fatal(err)
		}
	}
	must(sm.AssignSeats(map[string]int{"d": 4, "s": 0, "b": 2}))
	for _, id := range []string{"d", "s", "b"} {
		must(sm.JoinPlayers([]string{id}))
	}
	must(sm.InitPositions(false))
	sm.DealerSeatID, sm.SBSeatID, sm.BBSeatID = 4, 0, 2
	must(sm.AssignSeats(map[string]int{"n": 1}))
	must(sm.JoinPlayers([]string{"n"}))
	must(sm.UpdatePlayerHasChips("s", false))
	must(sm.UpdatePlayerHasChips("b", false))
	if err := sm.RotatePositions(); err != nil {
		t.Errorf("rotation refused (%v) although the players on seats 4 and 1 are seated in with chips", err)
	}
}
