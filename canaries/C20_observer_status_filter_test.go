// path: actor/zz_canary_c20_test.go
// Canary for the C20 finding (fixed): an observer must not see hole cards of a hand in play
// whatever the table status is (PauseTable / CloseTable during a hand leave GameState populated).
package actor

import (
	"testing"

	"github.com/weedbox/pokerface"
	"github.com/weedbox/pokertable"
)

func TestCanaryC20ObserverSeesNoHoleCardsWhenPausedMidHand(t *testing.T) {
	obr := NewObserverRunner()
	var seen *pokertable.Table
	obr.OnTableStateUpdated(func(tb *pokertable.Table) { seen = tb })
	gs := &pokerface.GameState{}
	gs.Status.CurrentEvent = "RoundStarted"
	gs.Meta.Deck = []string{"S2", "S3"}
	gs.Players = []*pokerface.PlayerState{{Idx: 0, HoleCards: []string{"SA", "SK"}}, {Idx: 1, HoleCards: []string{"HA", "HK"}}}
	tb := &pokertable.Table{State: &pokertable.TableState{Status: pokertable.TableStateStatus_TablePausing, GameState: gs}}
	if err := obr.UpdateTableState(tb); err != nil {
		t.Fatal(err)
	}
	if len(seen.State.GameState.Meta.Deck) != 0 {
		t.Errorf("observer sees the deck while the table is pausing mid-hand: %v", seen.State.GameState.Meta.Deck)
	}
	for _, p := range seen.State.GameState.Players {
		if len(p.HoleCards) != 0 {
			t.Errorf("observer sees hole cards of player %d while the table is pausing mid-hand: %v", p.Idx, p.HoleCards)
		}
	}
}
