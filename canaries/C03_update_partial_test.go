// path: zz_canary_c03update_test.go
// Canary for the recorded C03 finding: UpdateTablePlayers applies the departures, then refuses the
// arrivals, and reports the error with the departures already done. While the finding is open this test FAILS.
package pokertable

import "testing"

func TestCanaryC03BatchUpdateIsAllOrNothing(t *testing.T) {
	te := NewTableEngine(NewTableEngineOptions(), WithGameBackend(NewNativeGameBackend())).(*tableEngine)
	setting := TableSetting{
		TableID: "t",
		Meta: TableMeta{CompetitionID: "c", Rule: CompetitionRule_Default, Mode: CompetitionMode_CT, MaxDuration: 3600,
			TableMaxSeatCount: 6, TableMinPlayerCount: 2, MinChipUnit: 10, ActionTime: 10},
		Blind: TableBlindState{Level: 1, Ante: 0, Dealer: 0, SB: 10, BB: 20},
	}
	if _, err := te.CreateTable(setting); err != nil {
		t.Fatal(err)
	}
	for i, id := range []string{"a", "b"} {
		if err := te.PlayerReserve(JoinPlayer{PlayerID: id, RedeemChips: 1000, Seat: i + 1}); err != nil {
			t.Fatal(err)
		}
	}
	// a leaves, c asks for b's seat: the arrival is refused
	_, err := te.UpdateTablePlayers([]JoinPlayer{{PlayerID: "c", RedeemChips: 1000, Seat: 2}}, []string{"a"})
	if err == nil {
		t.Fatal("arrival on a taken seat accepted")
	}
	if te.table.FindPlayerIdx("a") == UnsetValue {
		t.Errorf("refused update (%v) removed player a from the player list", err)
	}
	if _, e := te.sm.GetSeatID("a"); e != nil {
		t.Errorf("refused update (%v) removed player a from the seat manager", err)
	}
}
