// path: zz_canary_c07_test.go
// Canary for the C07 finding (fixed): no hand opens after the table has been closed or released
// between hands, even when the open-game trigger fires afterwards.
package pokertable

import (
	"testing"
	"time"
)

func TestCanaryC07NoHandOpensOnClosedTable(t *testing.T) {
	for _, mode := range []string{"closed", "released"} {
		te := NewTableEngine(NewTableEngineOptions(), WithGameBackend(NewNativeGameBackend())).(*tableEngine)
		te.OnTableUpdated(func(*Table) {})
		setting := TableSetting{
			TableID: "t-" + mode,
			Meta: TableMeta{CompetitionID: "c", Rule: CompetitionRule_Default, Mode: CompetitionMode_CT, MaxDuration: 3600,
				TableMaxSeatCount: 6, TableMinPlayerCount: 2, MinChipUnit: 10, ActionTime: 10},
			Blind: TableBlindState{Level: 1, Ante: 0, Dealer: 0, SB: 10, BB: 20},
		}
		if _, err := te.CreateTable(setting); err != nil {
			t.Fatal(err)
		}
		for i, id := range []string{"a", "b"} {
			if err := te.PlayerReserve(JoinPlayer{PlayerID: id, RedeemChips: 1000, Seat: i}); err != nil {
				t.Fatal(err)
			}
			if err := te.PlayerJoin(id); err != nil {
				t.Fatal(err)
			}
		}
		if mode == "closed" {
			te.CloseTable()
		} else {
			te.ReleaseTable()
		}
		before := te.table.State.Status
		// the open-game trigger (gate completion) fires after the close / release request
		done := make(chan error, 1)
		go func() { done <- te.tableGameOpen() }()
		select {
		case <-done:
		case <-time.After(5 * time.Second):
			t.Fatal("tableGameOpen did not return")
		}
		time.Sleep(50 * time.Millisecond)
		if te.table.State.GameCount != 0 || te.table.State.GameState != nil || te.table.State.Status != before {
			t.Errorf("%s table: a hand was opened (status %s -> %s, game count %d)", mode, before, te.table.State.Status, te.table.State.GameCount)
		}
	}
}
