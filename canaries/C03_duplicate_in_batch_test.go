// path: zz_canary_c03dup_test.go
// Canary for the C03 finding (fixed): a batch naming the same player twice must be refused and
// leave everything as it was; it used to create two player entries for one seat.
package pokertable

import "testing"

func TestCanaryC03DuplicatePlayerInBatchRefused(t *testing.T) {
	te := NewTableEngine(NewTableEngineOptions(), WithGameBackend(NewNativeGameBackend())).(*tableEngine)
	setting := TableSetting{
		TableID: "t",
		Meta: TableMeta{CompetitionID: "c", Rule: CompetitionRule_Default, Mode: CompetitionMode_CT, MaxDuration: 3600,
			TableMaxSeatCount: 6, TableMinPlayerCount: 2, MinChipUnit: 10, ActionTime: 10},
		Blind: TableBlindState{Level: 1, Ante: 0, Dealer: 0, SB: 10, BB: 20},
	}
	if _, err := te.CreateTable(setting); err != nil {
		t.Fatal(err)
	}
	_, err := te.UpdateTablePlayers([]JoinPlayer{{PlayerID: "a", RedeemChips: 1000, Seat: 0}, {PlayerID: "a", RedeemChips: 500, Seat: 1}}, nil)
	n := 0
	for _, p := range te.table.State.PlayerStates {
		if p.PlayerID == "a" {
			n++
		}
	}
	if err == nil || n != 0 {
		t.Errorf("batch naming player a twice: err=%v, %d entries for a in the player list (want an error and 0)", err, n)
	}
	occupied := 0
	for _, sp := range te.sm.Seats() {
		if sp != nil {
			occupied++
		}
	}
	if occupied != 0 {
		t.Errorf("seat manager holds %d seats after the refused batch (want 0)", occupied)
	}
}
