// path: testcases/zz_canary_c01addon_test.go
// Canary for the C01 defect repaired by the "fix: settleGame credits the hand result" commit: chips
// added to a dealt-in player's bankroll while the hand is running (add-on) were destroyed at
// settlement, because settlement overwrote the bankroll with the hand's final stack.
// Fails on the commit before the fix, passes after it.
package testcases

import (
	"sync"
	"sync/atomic"
	"testing"
	"time"

	"github.com/thoas/go-funk"
	"github.com/weedbox/pokerface"
	"github.com/weedbox/pokertable"
)

func TestCanaryC01AddOnDuringHandIsNotDestroyed(t *testing.T) {
	var wg sync.WaitGroup
	wg.Add(1)
	var once sync.Once
	var addOnDone int32
	playerIDs := []string{"Fred", "Jeffrey", "Chuck"}
	const buyIn, addOn = int64(15000), int64(5000)
	var tableEngine pokertable.TableEngine
	bankroll := map[string]int64{}
	changed := map[string]int64{}
	manager := pokertable.NewManager()
	opt := pokertable.NewTableEngineOptions()
	opt.GameContinueInterval = 1
	opt.OpenGameTimeout = 2
	cb := pokertable.NewTableEngineCallbacks()
	cb.OnTableUpdated = func(table *pokertable.Table) {
		switch table.State.Status {
		case pokertable.TableStateStatus_TableGamePlaying:
			event, ok := pokerface.GameEventBySymbol[table.State.GameState.Status.CurrentEvent]
			if !ok {
				return
			}
			switch event {
			case pokerface.GameEvent_ReadyRequested:
				// the add-on arrives while the hand is running
				if atomic.CompareAndSwapInt32(&addOnDone, 0, 1) {
					if err := tableEngine.PlayerRedeemChips(pokertable.JoinPlayer{PlayerID: "Fred", RedeemChips: addOn}); err != nil {
						t.Errorf("add-on refused: %v", err)
					}
				}
				for _, id := range playerIDs {
					tableEngine.PlayerReady(id)
				}
			case pokerface.GameEvent_AnteRequested:
				for _, id := range playerIDs {
					tableEngine.PlayerPay(id, table.State.BlindState.Ante)
				}
			case pokerface.GameEvent_BlindsRequested:
				tableEngine.PlayerPay(findPlayerID(table, "sb"), table.State.BlindState.SB)
				tableEngine.PlayerPay(findPlayerID(table, "bb"), table.State.BlindState.BB)
			case pokerface.GameEvent_RoundStarted:
				id, actions := currentPlayerMove(table)
				if table.State.GameState.Status.Round == pokertable.GameRound_Preflop {
					if funk.Contains(actions, "check") {
						tableEngine.PlayerCheck(id)
					} else if funk.Contains(actions, "call") {
						tableEngine.PlayerCall(id)
					}
				} else if funk.Contains(actions, "allin") {
					tableEngine.PlayerAllin(id)
				}
			}
		case pokertable.TableStateStatus_TableGameSettled:
			if table.State.GameState.Status.CurrentEvent == pokerface.GameEventSymbols[pokerface.GameEvent_GameClosed] {
				once.Do(func() {
					for _, p := range table.State.PlayerStates {
						bankroll[p.PlayerID] = p.Bankroll
					}
					for _, r := range table.State.GameState.Result.Players {
						changed[table.State.PlayerStates[table.State.GamePlayerIndexes[r.Idx]].PlayerID] = r.Changed
					}
					wg.Done()
				})
			}
		}
	}
	cb.OnReadyOpenFirstTableGame = func(competitionID, tableID string, gameCount int, players []*pokertable.TablePlayerState) {
		participants := map[string]int{}
		for idx, p := range players {
			participants[p.PlayerID] = idx
		}
		tableEngine.SetUpTableGame(gameCount, participants)
	}
	table, err := manager.CreateTable(opt, cb, NewDefaultTableSetting())
	if err != nil {
		t.Fatal(err)
	}
	tableEngine, _ = manager.GetTableEngine(table.ID)
	for _, id := range playerIDs {
		if err := tableEngine.PlayerReserve(pokertable.JoinPlayer{PlayerID: id, RedeemChips: buyIn, Seat: pokertable.UnsetValue}); err != nil {
			t.Fatal(err)
		}
		if err := tableEngine.PlayerJoin(id); err != nil {
			t.Fatal(err)
		}
	}
	time.Sleep(time.Millisecond)
	if err := tableEngine.StartTableGame(); err != nil {
		t.Fatal(err)
	}
	wg.Wait()
	total := int64(0)
	for _, b := range bankroll {
		total += b
	}
	broughtIn := 3*buyIn + addOn
	if total != broughtIn {
		t.Errorf("after the hand the bankrolls sum to %d, brought in %d: %d chips destroyed", total, broughtIn, broughtIn-total)
	}
	for _, id := range playerIDs {
		want := buyIn + changed[id]
		if id == "Fred" {
			want += addOn
		}
		if bankroll[id] != want {
			t.Errorf("%s: bankroll %d, want what was brought in plus the hand result = %d", id, bankroll[id], want)
		}
	}
}
