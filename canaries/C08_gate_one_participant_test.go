// path: zz_canary_c08gate_test.go
// Canary for the recorded C08 finding: after a heads-up bust with a funded, seated-in newcomer the
// open-game gate is armed with the single surviving participant; OnOpenGameReady discards a gate with
// one participant, so the table never deals again. While the finding is open this test FAILS.
package pokertable

import (
	"testing"
	"time"
)

func TestCanaryC08GateCountsEveryoneWhoCanPlay(t *testing.T) {
	opts := NewTableEngineOptions()
	opts.GameContinueInterval = 0
	opts.OpenGameTimeout = 1
	te := NewTableEngine(opts, WithGameBackend(NewNativeGameBackend())).(*tableEngine)
	setting := TableSetting{
		TableID: "t",
		Meta: TableMeta{CompetitionID: "c", Rule: CompetitionRule_Default, Mode: CompetitionMode_CT, MaxDuration: 3600,
			TableMaxSeatCount: 6, TableMinPlayerCount: 2, MinChipUnit: 10, ActionTime: 10},
		Blind: TableBlindState{Level: 1, Ante: 0, Dealer: 0, SB: 10, BB: 20},
	}
	if _, err := te.CreateTable(setting); err != nil {
		t.Fatal(err)
	}
	for i, id := range []string{"a", "b", "c"} {
		if err := te.PlayerReserve(JoinPlayer{PlayerID: id, RedeemChips: 1000, Seat: i}); err != nil {
			t.Fatal(err)
		}
		if err := te.PlayerJoin(id); err != nil {
			t.Fatal(err)
		}
	}
	// the state right after the settlement of a heads-up hand between a and b in which a busted;
	// c sat down and joined during that hand
	te.lock.Lock()
	te.table.State.StartAt = time.Now().Unix()
	te.table.State.GameCount = 1
	te.table.State.Status = TableStateStatus_TableGameSettled
	te.table.State.PlayerStates[0].Bankroll = 0
	survivors := []*TablePlayerState{te.table.State.PlayerStates[1]}
	te.lock.Unlock()
	if err := te.continueGame(survivors); err != nil {
		t.Fatal(err)
	}
	canPlay := 0
	for _, p := range te.table.State.PlayerStates {
		if p.IsIn && p.Bankroll > 0 {
			canPlay++
		}
	}
	gate := len(te.ogm.GetState().Participants)
	t.Logf("status %s, seated-in players with chips %d, gate participants %d", te.table.State.Status, canPlay, gate)
	if te.table.State.Status == TableStateStatus_TableGameStandby && canPlay >= 2 && gate < 2 {
		t.Errorf("two players can play but the open-game gate has %d participant(s): the next hand is never opened", gate)
	}
}
