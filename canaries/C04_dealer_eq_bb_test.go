// path: seat_manager/zz_canary_c04a_test.go
// Canary for the recorded C04 finding "Dealer == BB with three dealt in". It documents the defect on
// the real code through the public API: while the finding is open this test FAILS.
package seat_manager

import "testing"

func TestCanaryC04DealerDistinctFromBigBlind(t *testing.T) {
	smi := NewSeatManager(9, Rule_Default)
	sm := smi.(*seatManager)
	must := func(err error) {
		if err != nil {
			t.Fatal(err)
		}
	}
	must(sm.AssignSeats(map[string]int{"d": 8, "s": 0, "b": 3}))
	must(sm.JoinPlayers([]string{"d"}))
	must(sm.JoinPlayers([]string{"s"}))
	must(sm.JoinPlayers([]string{"b"}))
	must(sm.InitPositions(false))
	// force the documented layout D=8 SB=0 BB=3 (InitPositions picks the first active seat as BB)
	sm.DealerSeatID, sm.SBSeatID, sm.BBSeatID = 8, 0, 3
	// newcomers sit down on 1 and 2 and join during the hand
	must(sm.AssignSeats(map[string]int{"n1": 1, "n2": 2}))
	must(sm.JoinPlayers([]string{"n1"}))
	must(sm.JoinPlayers([]string{"n2"}))
	// the players on 8 and 3 bust
	must(sm.UpdatePlayerHasChips("d", false))
	must(sm.UpdatePlayerHasChips("b", false))
	must(sm.RotatePositions())
	if sm.DealerSeatID == sm.BBSeatID {
		t.Errorf("after the rotation Dealer == BB == %d (SB=%d) with three players dealt in", sm.DealerSeatID, sm.SBSeatID)
	}
}
