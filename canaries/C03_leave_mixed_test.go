// path: zz_canary_c03leave_test.go
// Canary for the recorded C03 finding: a leave list mixing a seated and an unknown id is refused
// after the table dropped the seated player. While the finding is open this test FAILS.
package pokertable

import "testing"

func canaryTable(t *testing.T, seats int) *tableEngine {
	te := NewTableEngine(NewTableEngineOptions(), WithGameBackend(NewNativeGameBackend())).(*tableEngine)
	setting := TableSetting{
		TableID: "t",
		Meta: TableMeta{CompetitionID: "c", Rule: CompetitionRule_Default, Mode: CompetitionMode_CT, MaxDuration: 3600,
			TableMaxSeatCount: seats, TableMinPlayerCount: 2, MinChipUnit: 10, ActionTime: 10},
		Blind: TableBlindState{Level: 1, Ante: 0, Dealer: 0, SB: 10, BB: 20},
	}
	if _, err := te.CreateTable(setting); err != nil {
		t.Fatal(err)
	}
	return te
}

func TestCanaryC03LeaveListWithUnknownIdChangesNothing(t *testing.T) {
	te := canaryTable(t, 6)
	for i, id := range []string{"a", "b"} {
		if err := te.PlayerReserve(JoinPlayer{PlayerID: id, RedeemChips: 1000, Seat: i + 1}); err != nil {
			t.Fatal(err)
		}
	}
	err := te.PlayersLeave([]string{"a", "ghost"})
	if err == nil {
		t.Fatal("leave list with an unknown id accepted")
	}
	if te.table.FindPlayerIdx("a") == UnsetValue {
		t.Errorf("refused leave (%v) removed player a from the player list", err)
	}
	if _, e := te.sm.GetSeatID("a"); e != nil {
		t.Errorf("refused leave removed player a from the seat manager")
	}
}
