// path: zz_canary_c03mixed_test.go
// Canary for the recorded C03 finding: a batch mixing fixed and random seats whose random part fails
// leaves the fixed part seated in the seat manager only. While the finding is open this test FAILS.
package pokertable

import "testing"

func TestCanaryC03MixedBatchIsAllOrNothing(t *testing.T) {
	te := NewTableEngine(NewTableEngineOptions(), WithGameBackend(NewNativeGameBackend())).(*tableEngine)
	setting := TableSetting{
		TableID: "t",
		Meta: TableMeta{CompetitionID: "c", Rule: CompetitionRule_Default, Mode: CompetitionMode_CT, MaxDuration: 3600,
			TableMaxSeatCount: 2, TableMinPlayerCount: 2, MinChipUnit: 10, ActionTime: 10},
		Blind: TableBlindState{Level: 1, Ante: 0, Dealer: 0, SB: 10, BB: 20},
	}
	if _, err := te.CreateTable(setting); err != nil {
		t.Fatal(err)
	}
	_, err := te.UpdateTablePlayers([]JoinPlayer{{PlayerID: "a", RedeemChips: 1000, Seat: 0}, {PlayerID: "b", RedeemChips: 1000, Seat: 1},
		{PlayerID: "c", RedeemChips: 1000, Seat: -1}}, nil)
	if err == nil {
		t.Fatal("three players accepted on a two-seat table")
	}
	occupied := 0
	for _, sp := range te.sm.Seats() {
		if sp != nil {
			occupied++
		}
	}
	if occupied != 0 || len(te.table.State.PlayerStates) != 0 {
		t.Errorf("refused batch (%v) left %d seats taken in the seat manager and %d players at the table", err, occupied, len(te.table.State.PlayerStates))
	}
}
