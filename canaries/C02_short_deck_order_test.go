// path: zz_canary_c02shortdeck_test.go
// Canary for the C02 defect repaired by "fix: short-deck hand list follows the seats": on a short-deck
// table the hand's player list was built in player-list (arrival) order instead of clockwise seat order.
// Fails on the commit before the fix, passes after it.
package pokertable

import "testing"

func TestCanaryC02ShortDeckHandListIsClockwise(t *testing.T) {
	te := NewTableEngine(NewTableEngineOptions(), WithGameBackend(NewNativeGameBackend())).(*tableEngine)
	setting := TableSetting{
		TableID: "t",
		Meta: TableMeta{CompetitionID: "c", Rule: CompetitionRule_ShortDeck, Mode: CompetitionMode_CT, MaxDuration: 3600,
			TableMaxSeatCount: 9, TableMinPlayerCount: 2, MinChipUnit: 10, ActionTime: 10},
		Blind: TableBlindState{Level: 1, Ante: 10, Dealer: 0, SB: 0, BB: 0},
	}
	if _, err := te.CreateTable(setting); err != nil {
		t.Fatal(err)
	}
	// arrival order a, b, c on seats 5, 2, 7
	for _, jp := range []JoinPlayer{{PlayerID: "a", RedeemChips: 1000, Seat: 5}, {PlayerID: "b", RedeemChips: 1000, Seat: 2}, {PlayerID: "c", RedeemChips: 1000, Seat: 7}} {
		if err := te.PlayerReserve(jp); err != nil {
			t.Fatal(err)
		}
		if err := te.PlayerJoin(jp.PlayerID); err != nil {
			t.Fatal(err)
		}
	}
	for _, p := range te.table.State.PlayerStates {
		p.IsParticipated = true
	}
	st := te.table.State
	// dealer on seat 5: clockwise the hand is seats 5, 7, 2
	got := te.calcGamePlayerIndexes(CompetitionRule_ShortDeck, 9, 5, -1, -1, st.SeatMap, st.PlayerStates)
	var seats []int
	for _, idx := range got {
		seats = append(seats, st.PlayerStates[idx].Seat)
	}
	want := []int{5, 7, 2}
	if len(seats) != 3 || seats[0] != want[0] || seats[1] != want[1] || seats[2] != want[2] {
		t.Errorf("short-deck hand list visits seats %v, clockwise from the dealer seat 5 it is %v", seats, want)
	}
}
