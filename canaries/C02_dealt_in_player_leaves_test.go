// path: zz_canary_c02leave_test.go
// Canary for the recorded C02 finding: when a dealt-in player leaves while the hand is running, the
// hand's player list loses an entry and the later entries denote other players than before.
// While the finding is open this test FAILS.
package pokertable

import "testing"

func TestCanaryC02HandListKeepsDenotingTheSamePlayers(t *testing.T) {
	te := NewTableEngine(NewTableEngineOptions(), WithGameBackend(NewNativeGameBackend())).(*tableEngine)
	setting := TableSetting{
		TableID: "t",
		Meta: TableMeta{CompetitionID: "c", Rule: CompetitionRule_Default, Mode: CompetitionMode_CT, MaxDuration: 3600,
			TableMaxSeatCount: 6, TableMinPlayerCount: 2, MinChipUnit: 10, ActionTime: 10},
		Blind: TableBlindState{Level: 1, Ante: 0, Dealer: 0, SB: 10, BB: 20},
	}
	if _, err := te.CreateTable(setting); err != nil {
		t.Fatal(err)
	}
	for i, id := range []string{"a", "b", "c"} {
		if err := te.PlayerReserve(JoinPlayer{PlayerID: id, RedeemChips: 1000, Seat: i}); err != nil {
			t.Fatal(err)
		}
		if err := te.PlayerJoin(id); err != nil {
			t.Fatal(err)
		}
	}
	// a hand is running with a, b, c dealt in as entries 0, 1, 2
	te.lock.Lock()
	te.table.State.Status = TableStateStatus_TableGamePlaying
	te.table.State.GamePlayerIndexes = []int{0, 1, 2}
	for _, p := range te.table.State.PlayerStates {
		p.IsParticipated = true
	}
	te.lock.Unlock()
	before := []string{}
	for _, idx := range te.table.State.GamePlayerIndexes {
		before = append(before, te.table.State.PlayerStates[idx].PlayerID)
	}
	if err := te.PlayersLeave([]string{"b"}); err != nil {
		t.Skipf("leave refused: %v", err)
	}
	after := []string{}
	for _, idx := range te.table.State.GamePlayerIndexes {
		after = append(after, te.table.State.PlayerStates[idx].PlayerID)
	}
	if len(after) != len(before) {
		t.Errorf("the hand's player list was %v and is %v after the leave: entry 1 denotes another player, entry 2 is gone", before, after)
	}
}
