package main

// Contract files: comment-only Go files (build tag verif) holding //@ blocks.
// Grammar (one clause per line; a line that does not start with a keyword continues the previous clause):
//
//   //@ spec Name(p1, p2) = expr
//   //@ axiom expr                                  (assumed about package-level state; listed)
//   //@ devirt IfaceName = (*T)                     (sole implementation of an interface)
//   //@ opaque IfaceName                            (calls through it are logged, not followed)
//   //@ func (*T).Method | func Name | func (*T).Method$1
//   //@   property C04 C05
//   //@   returns r, err
//   //@   config M 2..10 : lvalue = expr, lvalue = expr
//   //@   requires expr
//   //@   ensures [label:] expr
//   //@   modifies loc, loc | nothing
//   //@   loop k unroll expr | loop k invariant expr | loop k decreases expr | loop k names a=b
//   //@   assert at <anchor> : expr
//   //@   trusted reason...                          (body not verified; callers use the contract)
//   //@   inline                                     (callers inline the body)
//   //@   let name = expr                            (abbreviation usable in later clauses; evaluated in the pre-state)

import (
	"fmt"
	"os"
	"strconv"
	"strings"
	"unicode"
)

type CExpr struct {
	Op   string // int str ident sel index call ! neg + - * / % == != < <= > >= && || ==> <==>
	Name string
	Args []*CExpr
	Int  int64
	Str  string
	Pos  string
}

func (e *CExpr) String() string {
	switch e.Op {
	case "int":
		return fmt.Sprint(e.Int)
	case "str":
		return strconv.Quote(e.Str)
	case "ident":
		return e.Name
	case "sel":
		return e.Args[0].String() + "." + e.Name
	case "index":
		return e.Args[0].String() + "[" + e.Args[1].String() + "]"
	case "call":
		var as []string
		for _, a := range e.Args[1:] {
			as = append(as, a.String())
		}
		return e.Args[0].String() + "(" + strings.Join(as, ", ") + ")"
	case "!", "neg":
		op := e.Op
		if op == "neg" {
			op = "-"
		}
		return op + e.Args[0].String()
	}
	return "(" + e.Args[0].String() + " " + e.Op + " " + e.Args[1].String() + ")"
}

type ctoken struct {
	kind string // ident int str op eof
	text string
	ival int64
}

func lexExpr(s string) ([]ctoken, error) {
	var toks []ctoken
	i := 0
	for i < len(s) {
		c := s[i]
		switch {
		case c == ' ' || c == '\t' || c == '\n':
			i++
		case unicode.IsLetter(rune(c)) || c == '_':
			j := i
			for j < len(s) && (unicode.IsLetter(rune(s[j])) || unicode.IsDigit(rune(s[j])) || s[j] == '_') {
				j++
			}
			toks = append(toks, ctoken{kind: "ident", text: s[i:j]})
			i = j
		case c >= '0' && c <= '9':
			j := i
			for j < len(s) && s[j] >= '0' && s[j] <= '9' {
				j++
			}
			v, _ := strconv.ParseInt(s[i:j], 10, 64)
			toks = append(toks, ctoken{kind: "int", text: s[i:j], ival: v})
			i = j
		case c == '"':
			j := i + 1
			for j < len(s) && s[j] != '"' {
				if s[j] == '\\' {
					j++
				}
				j++
			}
			if j >= len(s) {
				return nil, fmt.Errorf("unterminated string in %q", s)
			}
			str, err := strconv.Unquote(s[i : j+1])
			if err != nil {
				return nil, err
			}
			toks = append(toks, ctoken{kind: "str", text: str})
			i = j + 1
		default:
			ops := []string{"<==>", "==>", "==", "!=", "<=", ">=", "&&", "||", "(", ")", "[", "]", ".", ",", "+", "-", "*", "/", "%", "<", ">", "!", ":"}
			matched := false
			for _, op := range ops {
				if strings.HasPrefix(s[i:], op) {
					toks = append(toks, ctoken{kind: "op", text: op})
					i += len(op)
					matched = true
					break
				}
			}
			if !matched {
				return nil, fmt.Errorf("unexpected character %q in %q", c, s)
			}
		}
	}
	toks = append(toks, ctoken{kind: "eof"})
	return toks, nil
}

type exprParser struct {
	toks []ctoken
	pos  int
	src  string
}

func (p *exprParser) peek() ctoken { return p.toks[p.pos] }
func (p *exprParser) next() ctoken { t := p.toks[p.pos]; p.pos++; return t }
func (p *exprParser) accept(op string) bool {
	if p.peek().kind == "op" && p.peek().text == op {
		p.pos++
		return true
	}
	return false
}
func (p *exprParser) expect(op string) {
	if !p.accept(op) {
		panic(fmt.Errorf("expected %q at token %d (%q) in %q", op, p.pos, p.peek().text, p.src))
	}
}

var binPrec = map[string]int{
	"<==>": 1, "==>": 2, "||": 3, "&&": 4,
	"==": 5, "!=": 5, "<": 5, "<=": 5, ">": 5, ">=": 5,
	"+": 6, "-": 6, "*": 7, "/": 7, "%": 7,
}

func (p *exprParser) parseExpr(minPrec int) *CExpr {
	lhs := p.parseUnary()
	for {
		t := p.peek()
		if t.kind != "op" {
			break
		}
		prec, ok := binPrec[t.text]
		if !ok || prec < minPrec {
			break
		}
		p.next()
		var rhs *CExpr
		if t.text == "==>" { // right associative
			rhs = p.parseExpr(prec)
		} else {
			rhs = p.parseExpr(prec + 1)
		}
		lhs = &CExpr{Op: t.text, Args: []*CExpr{lhs, rhs}}
	}
	return lhs
}

func (p *exprParser) parseUnary() *CExpr {
	if p.accept("!") {
		return &CExpr{Op: "!", Args: []*CExpr{p.parseUnary()}}
	}
	if p.accept("-") {
		return &CExpr{Op: "neg", Args: []*CExpr{p.parseUnary()}}
	}
	return p.parsePostfix()
}

func (p *exprParser) parsePostfix() *CExpr {
	var e *CExpr
	t := p.next()
	switch t.kind {
	case "int":
		e = &CExpr{Op: "int", Int: t.ival}
	case "str":
		e = &CExpr{Op: "str", Str: t.text}
	case "ident":
		e = &CExpr{Op: "ident", Name: t.text}
	case "op":
		if t.text == "(" {
			e = p.parseExpr(1)
			p.expect(")")
		} else {
			panic(fmt.Errorf("unexpected %q in %q", t.text, p.src))
		}
	default:
		panic(fmt.Errorf("unexpected end of expression in %q", p.src))
	}
	for {
		if p.accept(".") {
			n := p.next()
			if n.kind != "ident" {
				panic(fmt.Errorf("expected field name after '.' in %q", p.src))
			}
			e = &CExpr{Op: "sel", Name: n.text, Args: []*CExpr{e}}
		} else if p.accept("[") {
			i := p.parseExpr(1)
			p.expect("]")
			e = &CExpr{Op: "index", Args: []*CExpr{e, i}}
		} else if p.accept("(") {
			args := []*CExpr{e}
			if !p.accept(")") {
				for {
					args = append(args, p.parseExpr(1))
					if p.accept(")") {
						break
					}
					p.expect(",")
				}
			}
			e = &CExpr{Op: "call", Args: args}
		} else {
			break
		}
	}
	return e
}

func parseCExpr(s string) (e *CExpr, err error) {
	defer func() {
		if r := recover(); r != nil {
			if er, ok := r.(error); ok {
				err = er
				return
			}
			panic(r)
		}
	}()
	toks, err := lexExpr(s)
	if err != nil {
		return nil, err
	}
	p := &exprParser{toks: toks, src: s}
	e = p.parseExpr(1)
	if p.peek().kind != "eof" {
		return nil, fmt.Errorf("trailing tokens after expression in %q (at %q)", s, p.peek().text)
	}
	return e, nil
}

// ---- contract file structure ----

type Clause struct {
	Kind  string // requires ensures ...
	Label string
	Text  string
	Expr  *CExpr
	Line  int
}

type LoopSpec struct {
	Unroll     *CExpr
	Invariants []*Clause
	Decreases  *CExpr
	Names      map[string]string
	MapOrder   string // "asc" to iterate an int-keyed map in ascending key order (needs a commutativity lemma)
}

type ConfigSpec struct {
	Var      string
	Lo, Hi   int
	QLo, QHi int // range used by the quick tier (defaults to Lo..Hi)
	Bindings []ConfigBinding
}
type ConfigBinding struct {
	LHS *CExpr
	RHS *CExpr
}

type AssertSpec struct {
	Anchor string
	Clause *Clause
}

type ModSpec struct {
	Text string
	Expr *CExpr // location expression; nil for "nothing"
}

type Contract struct {
	Pkg        string // package path
	FuncName   string // as written
	Props      []string
	Returns    []string
	Config     *ConfigSpec
	Requires   []*Clause
	Ensures    []*Clause
	Modifies   []ModSpec
	HasMod     bool
	Loops      map[int]*LoopSpec
	Asserts    []AssertSpec
	Assumes    []AssertSpec
	Guards     []GuardSpec
	Splits     []*SplitSpec
	Lets       []LetSpec
	Trusted    string
	Partial    string // verified only for part of the stated range; callers that rely on it say so
	RetSplit   bool   // postconditions are checked at every return statement separately (no merged exit state)
	Inline     bool
	NoVerify   bool
	File       string
	Line       int
	Text       string // whole text for hashing
	Lemma      bool
	LemmaSteps []*Clause
	Allocates  bool
	Logged     bool // modular calls of this function are appended to the ghost call log by the caller
}

// GuardSpec: "guarded <mutex lvalue> : "family-prefix", ..." — every load/store of a family with one of
// the prefixes inside this function (and what it inlines) must happen while the mutex is held.
type GuardSpec struct {
	Lock     *CExpr
	Prefixes []string
	Text     string
}

// SplitSpec: "split D lo..hi : lvalue = D" — a further case split nested inside the configuration;
// bounds are integer expressions over the configuration variable and earlier split variables.
type SplitSpec struct {
	Var    string
	Lo, Hi *CExpr
	LHS    *CExpr
	Text   string
}

type LetSpec struct {
	Name string
	Expr *CExpr
}

type SpecFn struct {
	Name   string
	Params []string
	Body   *CExpr
	Text   string
	Pkg    string
}

type ContractFile struct {
	Pkg       string
	Specs     map[string]*SpecFn
	Axioms    []*Clause
	Devirt    map[string]string // interface name -> concrete type text
	Opaque    map[string]bool
	Contracts []*Contract
}

var clauseKeywords = map[string]bool{
	"spec": true, "axiom": true, "devirt": true, "opaque": true, "func": true, "property": true, "returns": true,
	"config": true, "requires": true, "ensures": true, "modifies": true, "loop": true, "assert": true,
	"trusted": true, "inline": true, "let": true, "lemma": true, "step": true, "allocates": true, "logged": true, "assume": true, "guarded": true, "split": true, "partial": true, "retsplit": true,
}

func parseContractFile(path, pkgPath string) (*ContractFile, error) {
	data, err := os.ReadFile(path)
	if err != nil {
		return nil, err
	}
	cf := &ContractFile{Pkg: pkgPath, Specs: map[string]*SpecFn{}, Devirt: map[string]string{}, Opaque: map[string]bool{}}
	type rawClause struct {
		kw   string
		text string
		line int
	}
	var raws []rawClause
	for i, line := range strings.Split(string(data), "\n") {
		t := strings.TrimSpace(line)
		if !strings.HasPrefix(t, "//@") {
			continue
		}
		t = strings.TrimSpace(strings.TrimPrefix(t, "//@"))
		if t == "" {
			continue
		}
		// strip trailing comment introduced by " // "
		if k := strings.Index(t, " // "); k >= 0 {
			t = strings.TrimSpace(t[:k])
		}
		first := t
		rest := ""
		if k := strings.IndexAny(t, " \t"); k >= 0 {
			first = t[:k]
			rest = strings.TrimSpace(t[k+1:])
		}
		if clauseKeywords[first] {
			raws = append(raws, rawClause{first, rest, i + 1})
		} else {
			if len(raws) == 0 {
				return nil, fmt.Errorf("%s:%d: continuation line without a clause", path, i+1)
			}
			raws[len(raws)-1].text += " " + t
		}
	}
	var cur *Contract
	mkClause := func(kind, text string, line int) (*Clause, error) {
		label := ""
		// optional "label:" prefix (identifier followed by ':' and not '::')
		if k := strings.Index(text, ":"); k > 0 {
			cand := strings.TrimSpace(text[:k])
			ok := true
			for _, c := range cand {
				if !(unicode.IsLetter(c) || unicode.IsDigit(c) || c == '_' || c == '-') {
					ok = false
				}
			}
			if ok && cand != "" {
				label = cand
				text = strings.TrimSpace(text[k+1:])
			}
		}
		e, err := parseCExpr(text)
		if err != nil {
			return nil, fmt.Errorf("%s:%d: %v", path, line, err)
		}
		return &Clause{Kind: kind, Label: label, Text: text, Expr: e, Line: line}, nil
	}
	for _, rc := range raws {
		switch rc.kw {
		case "spec":
			k := strings.Index(rc.text, "=")
			if k < 0 {
				return nil, fmt.Errorf("%s:%d: spec without '='", path, rc.line)
			}
			// find the '=' that is not part of ==, <=, >=, != : the first " = "
			k = strings.Index(rc.text, " = ")
			if k < 0 {
				return nil, fmt.Errorf("%s:%d: spec needs ' = '", path, rc.line)
			}
			head := strings.TrimSpace(rc.text[:k])
			body := strings.TrimSpace(rc.text[k+3:])
			lp := strings.Index(head, "(")
			sf := &SpecFn{Text: rc.text, Pkg: pkgPath}
			if lp < 0 {
				sf.Name = head
			} else {
				sf.Name = strings.TrimSpace(head[:lp])
				ps := strings.TrimSuffix(strings.TrimSpace(head[lp+1:]), ")")
				for _, p := range strings.Split(ps, ",") {
					p = strings.TrimSpace(p)
					if p != "" {
						sf.Params = append(sf.Params, strings.Fields(p)[0])
					}
				}
			}
			e, err := parseCExpr(body)
			if err != nil {
				return nil, fmt.Errorf("%s:%d: %v", path, rc.line, err)
			}
			sf.Body = e
			cf.Specs[sf.Name] = sf
		case "axiom":
			c, err := mkClause("axiom", rc.text, rc.line)
			if err != nil {
				return nil, err
			}
			cf.Axioms = append(cf.Axioms, c)
		case "devirt":
			parts := strings.SplitN(rc.text, "=", 2)
			if len(parts) != 2 {
				return nil, fmt.Errorf("%s:%d: devirt Iface = (*T)", path, rc.line)
			}
			cf.Devirt[strings.TrimSpace(parts[0])] = strings.TrimSpace(parts[1])
		case "opaque":
			cf.Opaque[strings.TrimSpace(rc.text)] = true
		case "func", "lemma":
			cur = &Contract{Pkg: pkgPath, FuncName: strings.TrimSpace(rc.text), Loops: map[int]*LoopSpec{}, File: path, Line: rc.line, Lemma: rc.kw == "lemma"}
			cf.Contracts = append(cf.Contracts, cur)
		default:
			if cur == nil {
				return nil, fmt.Errorf("%s:%d: clause %q outside a func block", path, rc.line, rc.kw)
			}
			cur.Text += rc.kw + " " + rc.text + "\n"
			switch rc.kw {
			case "property":
				cur.Props = append(cur.Props, strings.Fields(rc.text)...)
			case "returns":
				for _, r := range strings.Split(rc.text, ",") {
					cur.Returns = append(cur.Returns, strings.TrimSpace(r))
				}
			case "config":
				// config M 2..10 : lhs = rhs, lhs = rhs
				parts := strings.SplitN(rc.text, ":", 2)
				hd := strings.Fields(parts[0])
				if (len(hd) != 2 && len(hd) != 4) || len(parts) != 2 {
					return nil, fmt.Errorf("%s:%d: config VAR lo..hi [quick lo..hi] : bindings", path, rc.line)
				}
				rng := strings.Split(hd[1], "..")
				lo, _ := strconv.Atoi(rng[0])
				hi, _ := strconv.Atoi(rng[1])
				cs := &ConfigSpec{Var: hd[0], Lo: lo, Hi: hi, QLo: lo, QHi: hi}
				if len(hd) == 4 && hd[2] == "quick" {
					q := strings.Split(hd[3], "..")
					cs.QLo, _ = strconv.Atoi(q[0])
					cs.QHi, _ = strconv.Atoi(q[1])
				}
				for _, b := range splitTopLevel(parts[1], ',') {
					k := strings.Index(b, " = ")
					if k < 0 {
						return nil, fmt.Errorf("%s:%d: config binding needs ' = '", path, rc.line)
					}
					l, err := parseCExpr(strings.TrimSpace(b[:k]))
					if err != nil {
						return nil, fmt.Errorf("%s:%d: %v", path, rc.line, err)
					}
					r, err := parseCExpr(strings.TrimSpace(b[k+3:]))
					if err != nil {
						return nil, fmt.Errorf("%s:%d: %v", path, rc.line, err)
					}
					cs.Bindings = append(cs.Bindings, ConfigBinding{l, r})
				}
				cur.Config = cs
			case "requires", "ensures", "step":
				c, err := mkClause(rc.kw, rc.text, rc.line)
				if err != nil {
					return nil, err
				}
				if rc.kw == "requires" {
					cur.Requires = append(cur.Requires, c)
				} else if rc.kw == "ensures" {
					cur.Ensures = append(cur.Ensures, c)
				} else {
					cur.LemmaSteps = append(cur.LemmaSteps, c)
				}
			case "modifies":
				cur.HasMod = true
				if strings.TrimSpace(rc.text) == "nothing" {
					break
				}
				for _, m := range splitTopLevel(rc.text, ',') {
					m = strings.TrimSpace(m)
					e, err := parseCExpr(m)
					if err != nil {
						return nil, fmt.Errorf("%s:%d: %v", path, rc.line, err)
					}
					cur.Modifies = append(cur.Modifies, ModSpec{m, e})
				}
			case "loop":
				f := strings.Fields(rc.text)
				if len(f) < 3 {
					return nil, fmt.Errorf("%s:%d: loop K kind expr", path, rc.line)
				}
				k, err := strconv.Atoi(f[0])
				if err != nil {
					return nil, fmt.Errorf("%s:%d: loop ordinal: %v", path, rc.line, err)
				}
				ls := cur.Loops[k]
				if ls == nil {
					ls = &LoopSpec{Names: map[string]string{}}
					cur.Loops[k] = ls
				}
				rest := strings.TrimSpace(strings.TrimPrefix(strings.TrimSpace(strings.TrimPrefix(rc.text, f[0])), f[1]))
				switch f[1] {
				case "unroll":
					e, err := parseCExpr(rest)
					if err != nil {
						return nil, fmt.Errorf("%s:%d: %v", path, rc.line, err)
					}
					ls.Unroll = e
				case "invariant":
					c, err := mkClause("invariant", rest, rc.line)
					if err != nil {
						return nil, err
					}
					ls.Invariants = append(ls.Invariants, c)
				case "decreases":
					e, err := parseCExpr(rest)
					if err != nil {
						return nil, fmt.Errorf("%s:%d: %v", path, rc.line, err)
					}
					ls.Decreases = e
				case "maporder":
					ls.MapOrder = rest
				default:
					return nil, fmt.Errorf("%s:%d: unknown loop clause %q", path, rc.line, f[1])
				}
			case "split":
				parts := strings.SplitN(rc.text, ":", 2)
				hd := strings.Fields(parts[0])
				if len(hd) != 2 || len(parts) != 2 {
					return nil, fmt.Errorf("%s:%d: split VAR lo..hi : lvalue = VAR", path, rc.line)
				}
				rng := strings.SplitN(hd[1], "..", 2)
				if len(rng) != 2 {
					return nil, fmt.Errorf("%s:%d: split range lo..hi", path, rc.line)
				}
				lo, err := parseCExpr(rng[0])
				if err != nil {
					return nil, fmt.Errorf("%s:%d: %v", path, rc.line, err)
				}
				hi, err := parseCExpr(rng[1])
				if err != nil {
					return nil, fmt.Errorf("%s:%d: %v", path, rc.line, err)
				}
				k := strings.Index(parts[1], " = ")
				if k < 0 {
					return nil, fmt.Errorf("%s:%d: split binding needs ' = '", path, rc.line)
				}
				lhs, err := parseCExpr(strings.TrimSpace(parts[1][:k]))
				if err != nil {
					return nil, fmt.Errorf("%s:%d: %v", path, rc.line, err)
				}
				cur.Splits = append(cur.Splits, &SplitSpec{Var: hd[0], Lo: lo, Hi: hi, LHS: lhs, Text: rc.text})
			case "guarded":
				k := strings.Index(rc.text, ":")
				if k < 0 {
					return nil, fmt.Errorf("%s:%d: guarded LOCK : \"prefix\", ...", path, rc.line)
				}
				le, err := parseCExpr(strings.TrimSpace(rc.text[:k]))
				if err != nil {
					return nil, fmt.Errorf("%s:%d: %v", path, rc.line, err)
				}
				gs := GuardSpec{Lock: le, Text: rc.text}
				for _, pf := range strings.Split(rc.text[k+1:], ",") {
					pf = strings.Trim(strings.TrimSpace(pf), "\"")
					if pf != "" {
						gs.Prefixes = append(gs.Prefixes, pf)
					}
				}
				cur.Guards = append(cur.Guards, gs)
			case "assume":
				// assume at call <external callee> : expr   (about results of a call that is not followed; listed as an assumption)
				t := strings.TrimSpace(strings.TrimPrefix(rc.text, "at"))
				k := strings.Index(t, ":")
				if k < 0 {
					return nil, fmt.Errorf("%s:%d: assume at call NAME : expr", path, rc.line)
				}
				c, err := mkClause("assume", strings.TrimSpace(t[k+1:]), rc.line)
				if err != nil {
					return nil, err
				}
				cur.Assumes = append(cur.Assumes, AssertSpec{strings.TrimSpace(t[:k]), c})
			case "assert":
				// assert at <anchor> : expr
				t := strings.TrimSpace(strings.TrimPrefix(rc.text, "at"))
				k := strings.Index(t, ":")
				if k < 0 {
					return nil, fmt.Errorf("%s:%d: assert at ANCHOR : expr", path, rc.line)
				}
				c, err := mkClause("assert", strings.TrimSpace(t[k+1:]), rc.line)
				if err != nil {
					return nil, err
				}
				cur.Asserts = append(cur.Asserts, AssertSpec{strings.TrimSpace(t[:k]), c})
			case "trusted":
				cur.Trusted = rc.text
				if cur.Trusted == "" {
					cur.Trusted = "trusted"
				}
			case "partial":
				cur.Partial = rc.text
			case "retsplit":
				cur.RetSplit = true
			case "inline":
				cur.Inline = true
			case "allocates":
				cur.Allocates = true
			case "logged":
				cur.Logged = true
			case "let":
				k := strings.Index(rc.text, " = ")
				if k < 0 {
					return nil, fmt.Errorf("%s:%d: let name = expr", path, rc.line)
				}
				e, err := parseCExpr(strings.TrimSpace(rc.text[k+3:]))
				if err != nil {
					return nil, fmt.Errorf("%s:%d: %v", path, rc.line, err)
				}
				cur.Lets = append(cur.Lets, LetSpec{strings.TrimSpace(rc.text[:k]), e})
			}
		}
	}
	return cf, nil
}

// splitTopLevel splits on sep outside parentheses/brackets.
func splitTopLevel(s string, sep byte) []string {
	var out []string
	depth := 0
	start := 0
	for i := 0; i < len(s); i++ {
		switch s[i] {
		case '(', '[':
			depth++
		case ')', ']':
			depth--
		default:
			if s[i] == sep && depth == 0 {
				out = append(out, s[start:i])
				start = i + 1
			}
		}
	}
	out = append(out, s[start:])
	return out
}
