package main

// SMT terms: hash-consed, lightly simplified on construction.

import (
	"fmt"
	"math/big"
	"sort"
	"strings"
)

type Sort byte

const (
	SInt Sort = iota
	SBool
	SReal
)

func (s Sort) String() string {
	switch s {
	case SInt:
		return "Int"
	case SBool:
		return "Bool"
	}
	return "Real"
}

type Term struct {
	id   int
	op   string // "lit", "var", "app" (uninterpreted fn), or SMT op
	name string // var / fn name / literal text
	args []*Term
	sort Sort
	ival *big.Int // for int literals
	// quantifier: op "forall"/"exists", name = bound var name, args[0] = body
}

type TermStore struct {
	tab   map[string]*Term
	n     int
	funs  map[string]string // declared uninterpreted fn name -> signature text "(Int Int) Bool"
	fresh int
}

var TS = &TermStore{tab: map[string]*Term{}, funs: map[string]string{}}

func resetTerms() {
	TS = &TermStore{tab: map[string]*Term{}, funs: map[string]string{}}
}

func (ts *TermStore) mk(op, name string, sort Sort, args ...*Term) *Term {
	var sb strings.Builder
	sb.WriteString(op)
	sb.WriteByte('|')
	sb.WriteString(name)
	sb.WriteByte('|')
	sb.WriteByte(byte('0' + sort))
	for _, a := range args {
		fmt.Fprintf(&sb, ",%d", a.id)
	}
	k := sb.String()
	if t, ok := ts.tab[k]; ok {
		return t
	}
	ts.n++
	t := &Term{id: ts.n, op: op, name: name, args: args, sort: sort}
	ts.tab[k] = t
	return t
}

func IntLit(v int64) *Term {
	t := TS.mk("lit", fmt.Sprint(v), SInt)
	if t.ival == nil {
		t.ival = big.NewInt(v)
	}
	return t
}

func BigLit(v *big.Int) *Term {
	t := TS.mk("lit", v.String(), SInt)
	if t.ival == nil {
		t.ival = new(big.Int).Set(v)
	}
	return t
}

func RealLit(s string) *Term { return TS.mk("lit", s, SReal) }

var (
	tTrue, tFalse *Term
)

func True() *Term  { return TS.mk("lit", "true", SBool) }
func False() *Term { return TS.mk("lit", "false", SBool) }
func BoolLit(b bool) *Term {
	if b {
		return True()
	}
	return False()
}

func (t *Term) IsTrue() bool  { return t.op == "lit" && t.sort == SBool && t.name == "true" }
func (t *Term) IsFalse() bool { return t.op == "lit" && t.sort == SBool && t.name == "false" }
func (t *Term) IsLit() bool   { return t.op == "lit" }
func (t *Term) IntVal() (int64, bool) {
	if t.op == "lit" && t.sort == SInt && t.ival != nil && t.ival.IsInt64() {
		return t.ival.Int64(), true
	}
	return 0, false
}

func Var(name string, s Sort) *Term {
	TS.funs[name] = "() " + s.String()
	return TS.mk("var", name, s)
}

func FreshVar(prefix string, s Sort) *Term {
	TS.fresh++
	return Var(fmt.Sprintf("%s!%d", prefix, TS.fresh), s)
}

// App: uninterpreted function application.
func App(fn string, s Sort, args ...*Term) *Term {
	sig := "("
	for i, a := range args {
		if i > 0 {
			sig += " "
		}
		sig += a.sort.String()
	}
	sig += ") " + s.String()
	if old, ok := TS.funs[fn]; ok && old != sig {
		panic(fmt.Sprintf("function %s redeclared: %s vs %s", fn, old, sig))
	}
	TS.funs[fn] = sig
	if len(args) == 0 {
		return TS.mk("var", fn, s)
	}
	return TS.mk("app", fn, s, args...)
}

func Not(a *Term) *Term {
	if a.IsTrue() {
		return False()
	}
	if a.IsFalse() {
		return True()
	}
	if a.op == "not" {
		return a.args[0]
	}
	return TS.mk("not", "", SBool, a)
}

func And(as ...*Term) *Term {
	var out []*Term
	seen := map[int]bool{}
	for _, a := range as {
		if a.IsFalse() {
			return False()
		}
		if a.IsTrue() {
			continue
		}
		if a.op == "and" {
			for _, b := range a.args {
				if !seen[b.id] {
					seen[b.id] = true
					out = append(out, b)
				}
			}
			continue
		}
		if !seen[a.id] {
			seen[a.id] = true
			out = append(out, a)
		}
	}
	for _, a := range out {
		if a.op == "not" && seen[a.args[0].id] {
			return False()
		}
	}
	if len(out) == 0 {
		return True()
	}
	if len(out) == 1 {
		return out[0]
	}
	return TS.mk("and", "", SBool, out...)
}

func Or(as ...*Term) *Term {
	var out []*Term
	seen := map[int]bool{}
	for _, a := range as {
		if a.IsTrue() {
			return True()
		}
		if a.IsFalse() {
			continue
		}
		if a.op == "or" {
			for _, b := range a.args {
				if !seen[b.id] {
					seen[b.id] = true
					out = append(out, b)
				}
			}
			continue
		}
		if !seen[a.id] {
			seen[a.id] = true
			out = append(out, a)
		}
	}
	for _, a := range out {
		if a.op == "not" && seen[a.args[0].id] {
			return True()
		}
	}
	if len(out) == 0 {
		return False()
	}
	if len(out) == 1 {
		return out[0]
	}
	// diamond merge: (P and c) or (P and not c)  ==  P   — keeps path conditions from growing
	if len(out) <= 6 {
		for changed := true; changed; {
			changed = false
			for i := 0; i < len(out) && !changed; i++ {
				for j := i + 1; j < len(out) && !changed; j++ {
					if m := mergeComplementary(out[i], out[j]); m != nil {
						rest := append(append([]*Term{}, out[:i]...), out[i+1:j]...)
						rest = append(rest, out[j+1:]...)
						rest = append(rest, m)
						return Or(rest...)
					}
				}
			}
		}
	}
	return TS.mk("or", "", SBool, out...)
}

func conjuncts(t *Term) []*Term {
	if t.op == "and" {
		return t.args
	}
	return []*Term{t}
}

// mergeComplementary: a = P ∧ c, b = P ∧ ¬c (same P)  =>  P ; also a = P, b = P ∧ x => P
func mergeComplementary(a, b *Term) *Term {
	ca, cb := conjuncts(a), conjuncts(b)
	sa := map[int]bool{}
	for _, t := range ca {
		sa[t.id] = true
	}
	sb := map[int]bool{}
	for _, t := range cb {
		sb[t.id] = true
	}
	var onlyA, onlyB []*Term
	for _, t := range ca {
		if !sb[t.id] {
			onlyA = append(onlyA, t)
		}
	}
	for _, t := range cb {
		if !sa[t.id] {
			onlyB = append(onlyB, t)
		}
	}
	if len(onlyA) == 0 { // a's conjuncts are a subset of b's: a or b == a
		return a
	}
	if len(onlyB) == 0 {
		return b
	}
	if len(onlyA) == 1 && len(onlyB) == 1 && Not(onlyA[0]) == onlyB[0] {
		var common []*Term
		for _, t := range ca {
			if sb[t.id] {
				common = append(common, t)
			}
		}
		return And(common...)
	}
	return nil
}

func Implies(a, b *Term) *Term {
	if a.IsTrue() {
		return b
	}
	if a.IsFalse() || b.IsTrue() {
		return True()
	}
	if b.IsFalse() {
		return Not(a)
	}
	if a == b {
		return True()
	}
	return TS.mk("=>", "", SBool, a, b)
}

func Iff(a, b *Term) *Term { return Eq(a, b) }

func Ite(c, a, b *Term) *Term {
	if c.IsTrue() {
		return a
	}
	if c.IsFalse() {
		return b
	}
	if a == b {
		return a
	}
	if a.sort == SBool {
		if a.IsTrue() && b.IsFalse() {
			return c
		}
		if a.IsFalse() && b.IsTrue() {
			return Not(c)
		}
		if a.IsTrue() {
			return Or(c, b)
		}
		if b.IsFalse() {
			return And(c, a)
		}
		if a.IsFalse() {
			return And(Not(c), b)
		}
		if b.IsTrue() {
			return Or(Not(c), a)
		}
	}
	// ite(c, x, ite(c, y, z)) = ite(c, x, z)
	if b.op == "ite" && b.args[0] == c {
		return Ite(c, a, b.args[2])
	}
	if a.op == "ite" && a.args[0] == c {
		return Ite(c, a.args[1], b)
	}
	return TS.mk("ite", "", a.sort, c, a, b)
}

func Eq(a, b *Term) *Term {
	if a == b {
		return True()
	}
	if a.sort != b.sort {
		panic(fmt.Sprintf("Eq sort mismatch: %s vs %s", a, b))
	}
	if a.IsLit() && b.IsLit() {
		if a.sort == SInt {
			return BoolLit(a.ival.Cmp(b.ival) == 0)
		}
		return BoolLit(a.name == b.name)
	}
	if a.sort == SBool {
		if a.IsTrue() {
			return b
		}
		if b.IsTrue() {
			return a
		}
		if a.IsFalse() {
			return Not(b)
		}
		if b.IsFalse() {
			return Not(a)
		}
	}
	// eq(ite(c,x,y), lit) push-down when branches are literals
	if b.IsLit() && a.op == "ite" && (a.args[1].IsLit() || a.args[2].IsLit()) {
		return Ite(a.args[0], Eq(a.args[1], b), Eq(a.args[2], b))
	}
	if a.IsLit() && b.op == "ite" && (b.args[1].IsLit() || b.args[2].IsLit()) {
		return Ite(b.args[0], Eq(b.args[1], a), Eq(b.args[2], a))
	}
	// x + c1 == c2
	if a.sort == SInt {
		if x, c, ok := splitConst(a); ok && b.IsLit() {
			return Eq(x, BigLit(new(big.Int).Sub(b.ival, c)))
		}
		if x, c, ok := splitConst(b); ok && a.IsLit() {
			return Eq(x, BigLit(new(big.Int).Sub(a.ival, c)))
		}
		if xa, ca, ok := splitConst(a); ok {
			if xb, cb, ok2 := splitConst(b); ok2 && xa == xb {
				return BoolLit(ca.Cmp(cb) == 0)
			}
			if xa == b {
				return BoolLit(ca.Sign() == 0)
			}
		}
		if xb, cb, ok := splitConst(b); ok && xb == a {
			return BoolLit(cb.Sign() == 0)
		}
	}
	if a.id > b.id {
		a, b = b, a
	}
	return TS.mk("=", "", SBool, a, b)
}

func Neq(a, b *Term) *Term { return Not(Eq(a, b)) }

// splitConst: t = x + c with c literal (only for "+" with exactly 2 args, one literal)
func splitConst(t *Term) (*Term, *big.Int, bool) {
	if t.op == "+" && len(t.args) == 2 {
		if t.args[1].IsLit() {
			return t.args[0], t.args[1].ival, true
		}
		if t.args[0].IsLit() {
			return t.args[1], t.args[0].ival, true
		}
	}
	return nil, nil, false
}

func Add(a, b *Term) *Term {
	if a.sort == SReal || b.sort == SReal {
		return TS.mk("+", "", SReal, a, b)
	}
	if a.IsLit() && b.IsLit() {
		return BigLit(new(big.Int).Add(a.ival, b.ival))
	}
	if a.IsLit() && a.ival.Sign() == 0 {
		return b
	}
	if b.IsLit() && b.ival.Sign() == 0 {
		return a
	}
	if a.IsLit() {
		a, b = b, a
	}
	// (x + c1) + c2
	if b.IsLit() {
		if x, c, ok := splitConst(a); ok {
			return Add(x, BigLit(new(big.Int).Add(c, b.ival)))
		}
		if a.op == "ite" && (a.args[1].IsLit() || a.args[2].IsLit()) {
			return Ite(a.args[0], Add(a.args[1], b), Add(a.args[2], b))
		}
	} else {
		// (x+c1)+(y) -> (x+y)+c1
		if x, c, ok := splitConst(a); ok {
			return Add(Add(x, b), BigLit(c))
		}
		if y, c, ok := splitConst(b); ok {
			return Add(Add(a, y), BigLit(c))
		}
	}
	return TS.mk("+", "", SInt, a, b)
}

func Neg(a *Term) *Term {
	if a.sort == SReal {
		return TS.mk("-", "", SReal, a)
	}
	if a.IsLit() {
		return BigLit(new(big.Int).Neg(a.ival))
	}
	return Sub(IntLit(0), a)
}

func Sub(a, b *Term) *Term {
	if a.sort == SReal || b.sort == SReal {
		return TS.mk("-", "", SReal, a, b)
	}
	if a == b {
		return IntLit(0)
	}
	if b.IsLit() {
		return Add(a, BigLit(new(big.Int).Neg(b.ival)))
	}
	if a.IsLit() && b.IsLit() {
		return BigLit(new(big.Int).Sub(a.ival, b.ival))
	}
	// (x + c) - y -> (x - y) + c
	if x, c, ok := splitConst(a); ok {
		return Add(Sub(x, b), BigLit(c))
	}
	if y, c, ok := splitConst(b); ok {
		return Add(Sub(a, y), BigLit(new(big.Int).Neg(c)))
	}
	return TS.mk("-", "", SInt, a, b)
}

func Mul(a, b *Term) *Term {
	if a.sort == SReal || b.sort == SReal {
		return TS.mk("*", "", SReal, a, b)
	}
	if a.IsLit() && b.IsLit() {
		return BigLit(new(big.Int).Mul(a.ival, b.ival))
	}
	if a.IsLit() {
		a, b = b, a
	}
	if b.IsLit() {
		if b.ival.Sign() == 0 {
			return IntLit(0)
		}
		if b.ival.Cmp(big.NewInt(1)) == 0 {
			return a
		}
	}
	return TS.mk("*", "", SInt, a, b)
}

// GoDiv / GoMod: truncated division semantics of Go, divisor assumed non-zero
// (a separate safety obligation covers zero).
func GoDiv(a, b *Term) *Term {
	if a.sort == SReal || b.sort == SReal {
		return TS.mk("/", "", SReal, a, b)
	}
	if a.IsLit() && b.IsLit() && b.ival.Sign() != 0 {
		return BigLit(new(big.Int).Quo(a.ival, b.ival))
	}
	if a.op == "ite" && b.IsLit() && (a.args[1].IsLit() || a.args[2].IsLit()) {
		return Ite(a.args[0], GoDiv(a.args[1], b), GoDiv(a.args[2], b))
	}
	// (x * c1) / c2 with c2 | c1  ==  x * (c1 / c2)   (exact, no rounding)
	if a.op == "*" && b.IsLit() && b.ival.Sign() != 0 && len(a.args) == 2 && a.args[1].IsLit() {
		if new(big.Int).Rem(a.args[1].ival, b.ival).Sign() == 0 {
			return Mul(a.args[0], BigLit(new(big.Int).Quo(a.args[1].ival, b.ival)))
		}
	}
	// SMT div is floor for positive divisor (euclidean); Go truncates toward zero.
	// trunc(a/b) = ite(a >= 0, (div a b), -(div (-a) b)) for b > 0; general via abs.
	q := TS.mk("div", "", SInt, a, b)
	nq := Neg(TS.mk("div", "", SInt, Neg(a), b))
	return Ite(Ge(a, IntLit(0)), q, nq)
}

func GoMod(a, b *Term) *Term {
	if a.IsLit() && b.IsLit() && b.ival.Sign() != 0 {
		return BigLit(new(big.Int).Rem(a.ival, b.ival))
	}
	if a.op == "ite" && b.IsLit() && (a.args[1].IsLit() || a.args[2].IsLit()) {
		return Ite(a.args[0], GoMod(a.args[1], b), GoMod(a.args[2], b))
	}
	// Go: a % b has the sign of a. SMT mod is always >= 0 (euclidean).
	// a >= 0: (mod a |b|) ; a < 0: -(mod (-a) |b|). mod ignores the sign of b in SMT-LIB.
	m := TS.mk("mod", "", SInt, a, b)
	nm := Neg(TS.mk("mod", "", SInt, Neg(a), b))
	return Ite(Ge(a, IntLit(0)), m, nm)
}

func Lt(a, b *Term) *Term {
	if a.sort == SReal || b.sort == SReal {
		return TS.mk("<", "", SBool, a, b)
	}
	if a == b {
		return False()
	}
	if a.IsLit() && b.IsLit() {
		return BoolLit(a.ival.Cmp(b.ival) < 0)
	}
	if xa, ca, ok := splitConst(a); ok {
		if b.IsLit() {
			return Lt(xa, BigLit(new(big.Int).Sub(b.ival, ca)))
		}
		if xb, cb, ok2 := splitConst(b); ok2 && xa == xb {
			return BoolLit(ca.Cmp(cb) < 0)
		}
		if xa == b {
			return BoolLit(ca.Sign() < 0)
		}
	}
	if xb, cb, ok := splitConst(b); ok {
		if a.IsLit() {
			return Lt(BigLit(new(big.Int).Sub(a.ival, cb)), xb)
		}
		if xb == a {
			return BoolLit(cb.Sign() > 0)
		}
	}
	if b.IsLit() && a.op == "ite" && (a.args[1].IsLit() || a.args[2].IsLit()) {
		return Ite(a.args[0], Lt(a.args[1], b), Lt(a.args[2], b))
	}
	if a.IsLit() && b.op == "ite" && (b.args[1].IsLit() || b.args[2].IsLit()) {
		return Ite(b.args[0], Lt(a, b.args[1]), Lt(a, b.args[2]))
	}
	return TS.mk("<", "", SBool, a, b)
}

func Le(a, b *Term) *Term {
	if a.sort == SReal || b.sort == SReal {
		return TS.mk("<=", "", SBool, a, b)
	}
	return Not(Lt(b, a))
}
func Gt(a, b *Term) *Term { return Lt(b, a) }
func Ge(a, b *Term) *Term { return Le(b, a) }

func Forall(v *Term, body *Term) *Term {
	if body.IsTrue() || body.IsFalse() {
		return body
	}
	return TS.mk("forall", v.name, SBool, body)
}
func Exists(v *Term, body *Term) *Term {
	if body.IsTrue() || body.IsFalse() {
		return body
	}
	return TS.mk("exists", v.name, SBool, body)
}

// ToReal conversion
func ToReal(a *Term) *Term {
	if a.sort == SReal {
		return a
	}
	return TS.mk("to_real", "", SReal, a)
}
func ToInt(a *Term) *Term {
	if a.sort == SInt {
		return a
	}
	return TS.mk("to_int", "", SInt, a)
}

func (t *Term) String() string {
	var sb strings.Builder
	t.write(&sb, nil)
	return sb.String()
}

func smtName(n string) string {
	simple := true
	for _, c := range n {
		if !(c >= 'a' && c <= 'z' || c >= 'A' && c <= 'Z' || c >= '0' && c <= '9' || c == '_' || c == '.' || c == '!' || c == '@' || c == '$') {
			simple = false
			break
		}
	}
	if simple && len(n) > 0 && !(n[0] >= '0' && n[0] <= '9') {
		return n
	}
	return "|" + n + "|"
}

// smtTooLarge: the rendered query exceeded smtCapBytes. Subterms under a binder cannot be shared through
// define-fun, so a change to the code can make one obligation's text grow exponentially; such an obligation is
// not sent to a solver (verdict "toolarge": undecided, reported like a timeout) instead of exhausting memory.
type smtTooLarge struct{}

const smtCapBytes = 192 << 20

func (t *Term) write(sb *strings.Builder, names map[int]string) {
	if sb.Len() > smtCapBytes {
		panic(smtTooLarge{})
	}
	if names != nil {
		if n, ok := names[t.id]; ok {
			sb.WriteString(n)
			return
		}
	}
	switch t.op {
	case "lit":
		if t.sort == SInt && t.ival.Sign() < 0 {
			fmt.Fprintf(sb, "(- %s)", new(big.Int).Neg(t.ival).String())
		} else {
			sb.WriteString(t.name)
		}
	case "var":
		sb.WriteString(smtName(t.name))
	case "app":
		sb.WriteByte('(')
		sb.WriteString(smtName(t.name))
		for _, a := range t.args {
			sb.WriteByte(' ')
			a.write(sb, names)
		}
		sb.WriteByte(')')
	case "forall", "exists":
		fmt.Fprintf(sb, "(%s ((%s Int)) ", t.op, smtName(t.name))
		t.args[0].write(sb, names)
		sb.WriteByte(')')
	default:
		sb.WriteByte('(')
		sb.WriteString(t.op)
		for _, a := range t.args {
			sb.WriteByte(' ')
			a.write(sb, names)
		}
		sb.WriteByte(')')
	}
}

// collect: all distinct subterms in topological (children first) order.
func collect(roots []*Term) []*Term {
	seen := map[int]bool{}
	var out []*Term
	var rec func(t *Term)
	rec = func(t *Term) {
		if seen[t.id] {
			return
		}
		seen[t.id] = true
		for _, a := range t.args {
			rec(a)
		}
		out = append(out, t)
	}
	for _, r := range roots {
		rec(r)
	}
	return out
}

// hasBound: does the term mention any quantifier-bound variable (so it cannot be let-lifted globally)?
func boundVarsOf(roots []*Term) map[string]bool {
	bv := map[string]bool{}
	for _, t := range collect(roots) {
		if t.op == "forall" || t.op == "exists" {
			bv[t.name] = true
		}
	}
	return bv
}

// EmitSMT renders an obligation: hyps and the negated goal, sharing subterms through define-fun.
func EmitSMT(hyps []*Term, goal *Term, logicHint string, cover bool, watch ...[]WatchTerm) string {
	return EmitSMTWith(TS.funs, hyps, goal, cover, watch...)
}

// EmitSMTWith renders against the signature table of the term store the terms were built in (the
// store is replaced for every verified function; obligations are rendered later, in the solver workers).
func EmitSMTWith(funs map[string]string, hyps []*Term, goal *Term, cover bool, watch ...[]WatchTerm) string {
	roots := append([]*Term{}, hyps...)
	if goal != nil {
		roots = append(roots, goal)
	}
	var ws []WatchTerm
	if len(watch) > 0 {
		ws = watch[0]
	}
	for _, w := range ws {
		roots = append(roots, w.T)
	}
	all := collect(roots)
	bv := boundVarsOf(roots)
	// which terms mention bound variables
	mentions := map[int]bool{}
	refcnt := map[int]int{}
	for _, t := range all {
		m := false
		if t.op == "var" && bv[t.name] {
			m = true
		}
		for _, a := range t.args {
			refcnt[a.id]++
			if mentions[a.id] {
				m = true
			}
		}
		mentions[t.id] = m
	}
	var sb strings.Builder
	sb.WriteString("(set-option :produce-models true)\n")
	sb.WriteString("(set-logic ALL)\n")
	// declarations for used vars / apps
	used := map[string]bool{}
	for _, t := range all {
		if (t.op == "var" && !bv[t.name]) || t.op == "app" {
			used[t.name] = true
		}
	}
	var names []string
	for n := range used {
		names = append(names, n)
	}
	sort.Strings(names)
	for _, n := range names {
		sig := funs[n]
		if sig == "" {
			panic("undeclared " + n)
		}
		fmt.Fprintf(&sb, "(declare-fun %s %s)\n", smtName(n), sig)
	}
	defs := map[int]string{}
	for _, t := range all {
		if len(t.args) == 0 || mentions[t.id] {
			continue
		}
		if refcnt[t.id] > 1 {
			nm := fmt.Sprintf("t$%d", t.id)
			sb.WriteString("(define-fun ")
			sb.WriteString(nm)
			sb.WriteString(" () ")
			sb.WriteString(t.sort.String())
			sb.WriteByte(' ')
			t.write(&sb, defs)
			sb.WriteString(")\n")
			defs[t.id] = nm
		}
	}
	for _, h := range hyps {
		sb.WriteString("(assert ")
		h.write(&sb, defs)
		sb.WriteString(")\n")
	}
	if goal != nil {
		sb.WriteString("(assert (not ")
		goal.write(&sb, defs)
		sb.WriteString("))\n")
	}
	sb.WriteString("(check-sat)\n")
	if len(ws) > 0 {
		sb.WriteString("(get-value (")
		for _, w := range ws {
			w.T.write(&sb, defs)
			sb.WriteByte(' ')
		}
		sb.WriteString("))\n")
	}
	return sb.String()
}

type WatchTerm struct {
	Name string
	T    *Term
}
