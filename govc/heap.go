package main

// Engine-level heap: every "family" (one per struct field / slice element kind / map component)
// is a function Int^n -> sort, represented as a tree of updates over an uninterpreted base
// function. Reads are expanded into ite-chains here, so the SMT goals never contain array terms.

import (
	"fmt"
	"sort"
)

type hKind byte

const (
	hBase      hKind = iota // uninterpreted function `name`
	hStore                  // prev with [idx...] := val
	hIte                    // c ? a : b
	hOverlay                // idx[0] < bound ? prev : other     (objects allocated by a callee)
	hRowCopy                // 2-index: [ref, j] := src[srcRef, j]
	hRowConst               // n-index, first index = ref: [ref, *] := val
	hRowShift               // 2-index: [ref, j] := src[srcRef, j + delta]
	hConst                  // constant function (used for zero-initialised fresh families)
	hRowSplice              // 2-index: [ref, j] := j < cond ? src[srcRef, j] : src[val, j + delta]
)

type HNode struct {
	id     int
	kind   hKind
	name   string
	arity  int
	sort   Sort
	prev   *HNode
	other  *HNode
	idx    []*Term
	val    *Term
	cond   *Term
	ref    *Term
	srcRef *Term
	delta  *Term
	memo   map[string]*Term
}

var hnodeCount int

func newHNode(k hKind, arity int, s Sort) *HNode {
	hnodeCount++
	return &HNode{id: hnodeCount, kind: k, arity: arity, sort: s, memo: map[string]*Term{}}
}

func HBase(name string, arity int, s Sort) *HNode {
	n := newHNode(hBase, arity, s)
	n.name = name
	return n
}

func HConstNode(arity int, v *Term) *HNode {
	n := newHNode(hConst, arity, v.sort)
	n.val = v
	return n
}

func (h *HNode) Store(idx []*Term, v *Term) *HNode {
	if len(idx) != h.arity {
		panic(fmt.Sprintf("store arity mismatch on %s: %d vs %d", h.rootName(), len(idx), h.arity))
	}
	if v.sort != h.sort {
		panic(fmt.Sprintf("store sort mismatch on %s: %v vs %v", h.rootName(), v.sort, h.sort))
	}
	n := newHNode(hStore, h.arity, h.sort)
	n.prev = h
	n.idx = idx
	n.val = v
	return n
}

func (h *HNode) rootName() string {
	x := h
	for x.prev != nil {
		x = x.prev
	}
	return x.name
}

func HIte(c *Term, a, b *HNode) *HNode {
	if a == b || c.IsTrue() {
		return a
	}
	if c.IsFalse() {
		return b
	}
	n := newHNode(hIte, a.arity, a.sort)
	n.cond = c
	n.prev = a
	n.other = b
	return n
}

func (h *HNode) Overlay(fresh *HNode, bound *Term) *HNode {
	n := newHNode(hOverlay, h.arity, h.sort)
	n.prev = h
	n.other = fresh
	n.cond = bound
	return n
}

func (h *HNode) RowCopy(ref *Term, src *HNode, srcRef *Term) *HNode {
	n := newHNode(hRowCopy, h.arity, h.sort)
	n.prev = h
	n.ref = ref
	n.other = src
	n.srcRef = srcRef
	return n
}

func (h *HNode) RowShift(ref *Term, src *HNode, srcRef *Term, delta *Term) *HNode {
	n := newHNode(hRowShift, h.arity, h.sort)
	n.prev = h
	n.ref = ref
	n.other = src
	n.srcRef = srcRef
	n.delta = delta
	return n
}

func (h *HNode) RowConst(ref *Term, v *Term) *HNode {
	n := newHNode(hRowConst, h.arity, h.sort)
	n.prev = h
	n.ref = ref
	n.val = v
	return n
}

func idxKey(idx []*Term) string {
	s := ""
	for _, i := range idx {
		s += fmt.Sprintf("%d,", i.id)
	}
	return s
}

func (h *HNode) Select(idx []*Term) *Term {
	if len(idx) != h.arity {
		panic(fmt.Sprintf("select arity mismatch on %s: %d vs %d", h.rootName(), len(idx), h.arity))
	}
	k := idxKey(idx)
	if t, ok := h.memo[k]; ok {
		return t
	}
	var r *Term
	switch h.kind {
	case hBase:
		r = App(h.name, h.sort, idx...)
	case hConst:
		r = h.val
	case hStore:
		c := True()
		for i := range idx {
			c = And(c, Eq(idx[i], h.idx[i]))
		}
		if c.IsTrue() {
			r = h.val
		} else if c.IsFalse() {
			r = h.prev.Select(idx)
		} else {
			r = Ite(c, h.val, h.prev.Select(idx))
		}
	case hIte:
		r = Ite(h.cond, h.prev.Select(idx), h.other.Select(idx))
	case hOverlay:
		c := Lt(idx[0], h.cond)
		if c.IsTrue() {
			r = h.prev.Select(idx)
		} else if c.IsFalse() {
			r = h.other.Select(idx)
		} else {
			r = Ite(c, h.prev.Select(idx), h.other.Select(idx))
		}
	case hRowCopy:
		c := Eq(idx[0], h.ref)
		if c.IsFalse() {
			r = h.prev.Select(idx)
		} else {
			src := append([]*Term{h.srcRef}, idx[1:]...)
			if c.IsTrue() {
				r = h.other.Select(src)
			} else {
				r = Ite(c, h.other.Select(src), h.prev.Select(idx))
			}
		}
	case hRowShift:
		c := Eq(idx[0], h.ref)
		if c.IsFalse() {
			r = h.prev.Select(idx)
		} else {
			src := []*Term{h.srcRef, Add(idx[1], h.delta)}
			if c.IsTrue() {
				r = h.other.Select(src)
			} else {
				r = Ite(c, h.other.Select(src), h.prev.Select(idx))
			}
		}
	case hRowSplice:
		c := Eq(idx[0], h.ref)
		if c.IsFalse() {
			r = h.prev.Select(idx)
		} else {
			lo := h.other.Select([]*Term{h.srcRef, idx[1]})
			hi := h.other.Select([]*Term{h.val, Add(idx[1], h.delta)})
			v := Ite(Lt(idx[1], h.cond), lo, hi)
			if c.IsTrue() {
				r = v
			} else {
				r = Ite(c, v, h.prev.Select(idx))
			}
		}
	case hRowConst:
		c := Eq(idx[0], h.ref)
		if c.IsTrue() {
			r = h.val
		} else if c.IsFalse() {
			r = h.prev.Select(idx)
		} else {
			r = Ite(c, h.val, h.prev.Select(idx))
		}
	}
	h.memo[k] = r
	return r
}

// Heap: family name -> node. Families are created on demand.
type Heap struct {
	fam map[string]*HNode
}

func NewHeap() *Heap { return &Heap{fam: map[string]*HNode{}} }

func (h *Heap) Clone() *Heap {
	n := &Heap{fam: make(map[string]*HNode, len(h.fam))}
	for k, v := range h.fam {
		n.fam[k] = v
	}
	return n
}

// famInfo registry (global per run of one function): arity and sort of every family.
type famInfo struct {
	arity int
	sort  Sort
}

var famReg = map[string]famInfo{}
var famVersion = map[string]int{}

func resetFamilies() {
	famReg = map[string]famInfo{}
	famVersion = map[string]int{}
	hnodeCount = 0
}

func freshBase(name string, arity int, s Sort) *HNode {
	famVersion[name]++
	return HBase(fmt.Sprintf("%s@%d", name, famVersion[name]), arity, s)
}

// Get returns the node for a family; the first use in any heap defines the shared initial base
// "name@0" so that pre- and post-heaps agree on untouched families.
func (h *Heap) Get(name string, arity int, s Sort) *HNode {
	if n, ok := h.fam[name]; ok {
		if n.arity != arity || n.sort != s {
			panic(fmt.Sprintf("family %s used with arity/sort %d/%v, declared %d/%v", name, arity, s, n.arity, n.sort))
		}
		return n
	}
	if fi, ok := famReg[name]; ok {
		if fi.arity != arity || fi.sort != s {
			panic(fmt.Sprintf("family %s used with arity/sort %d/%v, registered %d/%v", name, arity, s, fi.arity, fi.sort))
		}
	} else {
		famReg[name] = famInfo{arity, s}
	}
	n := HBase(name+"@0", arity, s)
	// the initial base must be identical for all heaps: cache it
	if b, ok := initialBases[name]; ok {
		n = b
	} else {
		initialBases[name] = n
	}
	h.fam[name] = n
	return n
}

var initialBases = map[string]*HNode{}

func (h *Heap) Set(name string, n *HNode) { h.fam[name] = n }

func (h *Heap) Names() []string {
	var ns []string
	for k := range h.fam {
		ns = append(ns, k)
	}
	sort.Strings(ns)
	return ns
}

// MergeHeaps: c ? a : b
func MergeHeaps(c *Term, a, b *Heap) *Heap {
	out := NewHeap()
	names := map[string]bool{}
	for k := range a.fam {
		names[k] = true
	}
	for k := range b.fam {
		names[k] = true
	}
	for k := range names {
		fi := famReg[k]
		na := a.Get(k, fi.arity, fi.sort)
		nb := b.Get(k, fi.arity, fi.sort)
		out.fam[k] = HIte(c, na, nb)
	}
	return out
}
