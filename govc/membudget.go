package main

import (
	"fmt"
	"os"
	"runtime"
	"runtime/debug"
	"strconv"
	"sync/atomic"
	"time"
)

// Memory budget of the generator. A change to the code under contract can make the symbolic execution of a
// function explode (a new loop nest, a map index built in a loop ...). Instead of being killed by the kernel —
// which would end the check without a verdict — the generator gives up on that function: its obligations
// "cannot be generated any more", which the check reports as a violation of the obligations it carried.
type MemBudgetError struct{ msg string }

var memOver int32
var memLimitBytes uint64 = 20 << 30

func memWatch() {
	if v := os.Getenv("VERIF_MEMLIMIT_GB"); v != "" {
		if n, err := strconv.Atoi(v); err == nil && n > 0 {
			memLimitBytes = uint64(n) << 30
		}
	}
	go func() {
		var ms runtime.MemStats
		for {
			runtime.ReadMemStats(&ms)
			if ms.HeapAlloc > memLimitBytes {
				atomic.StoreInt32(&memOver, 1)
			}
			time.Sleep(250 * time.Millisecond)
		}
	}()
}

func memCheck(x *Exec) {
	if atomic.LoadInt32(&memOver) == 1 {
		panic(MemBudgetError{fmt.Sprintf("more than %d GB while executing %s symbolically", memLimitBytes>>30, x.funcDisplayName())})
	}
}

func memRelease() {
	atomic.StoreInt32(&memOver, 0)
	debug.FreeOSMemory()
}
