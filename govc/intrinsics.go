package main

// Built-in models of standard-library and third-party functions. Every model that is used is
// recorded in the trusted base of the obligations that depended on it.

import (
	"fmt"
	"go/types"
	"strings"

	"golang.org/x/tools/go/ssa"
)

func fullName(fn *ssa.Function) string { return fn.String() }

var noEffectPrefixes = []string{
	"fmt.", "log.", "os.", "(*os.", "strconv.", "strings.", "unicode", "(*strings.",
}

func isIntrinsic(fn *ssa.Function) bool {
	n := fullName(fn)
	if _, ok := intrinsicTable[n]; ok {
		return true
	}
	for _, p := range noEffectPrefixes {
		if strings.HasPrefix(n, p) {
			return true
		}
	}
	if fn.Pkg != nil {
		switch fn.Pkg.Pkg.Path() {
		case "time", "math/rand", "sync", "sort", "encoding/json", "errors", "github.com/thoas/go-funk",
			"github.com/weedbox/syncsaga", "github.com/weedbox/timebank", "github.com/google/uuid", "math", "reflect",
			"github.com/weedbox/pokerface/settlement":
			return true
		}
	}
	return false
}

type intrinsicFn func(x *Exec, st *State, site ssa.Instruction, fn *ssa.Function, args []Val) Val

var intrinsicTable map[string]intrinsicFn

func init() {
	intrinsicTable = map[string]intrinsicFn{
		"(*sync.Mutex).Lock":                lockIntr(true, false),
		"(*sync.Mutex).Unlock":              lockIntr(false, false),
		"(*sync.RWMutex).Lock":              lockIntr(true, false),
		"(*sync.RWMutex).Unlock":            lockIntr(false, false),
		"(*sync.RWMutex).RLock":             lockIntr(true, true),
		"(*sync.RWMutex).RUnlock":           lockIntr(false, true),
		"(*sync.Map).Load":                  syncMapLoad,
		"(*sync.Map).Store":                 syncMapStore,
		"(*sync.Map).Delete":                syncMapDelete,
		"github.com/thoas/go-funk.Contains": funkContains,
		"github.com/thoas/go-funk.Filter":   funkFilter,
		"sort.Slice":                        sortSlice,
		"(*math/rand.Rand).Shuffle":         randShuffle,
		"math/rand.NewSource":               opaqueResult,
		"math/rand.New":                     opaqueResult,
		"math/rand.Seed":                    noEffect,
		"math/rand.Float64":                 randFloat,
		"math/rand.Intn":                    randIntn,
		"math/rand.Int63n":                  randIntn,
		"time.Now":                          timeNow,
		"(time.Time).Unix":                  timeUnix,
		"(time.Time).UnixNano":              timeUnixNano,
		"(time.Time).Add":                   timeAdd,
		"time.Unix":                         timeFromUnix,
		"time.Sleep":                        noEffect,
		"(time.Time).Format":                freshString,
		"(time.Time).String":                freshString,
		"errors.Is":                         errorsIs,
		"strings.Join":                      freshString,
		"fmt.Sprintf":                       freshString,
		"fmt.Sprint":                        freshString,
		"strconv.Itoa":                      freshString,
		"encoding/json.Marshal":             jsonMarshal,
		"encoding/json.Unmarshal":           jsonUnmarshal,
	}
}

func intrinsicEffects(fn *ssa.Function, c *ssa.CallCommon, eff *effects) {
	n := fullName(fn)
	switch n {
	case "(*sync.Map).Store", "(*sync.Map).Delete":
		eff.fams["syncmap"] = true
	case "sort.Slice", "(*math/rand.Rand).Shuffle":
		// permutes the slice captured by the closure argument
		eff.all = false
		if len(c.Args) > 0 {
			// conservatively: elements of int slices
			eff.fams["elem.int"] = true
		}
	case "github.com/thoas/go-funk.Filter":
		eff.allocs = true
	}
	if strings.HasSuffix(n, ".Lock") || strings.HasSuffix(n, ".Unlock") || strings.HasSuffix(n, ".RLock") || strings.HasSuffix(n, ".RUnlock") {
		eff.fams["#held"] = true
	}
}

func (x *Exec) intrinsic(st *State, site ssa.Instruction, fn *ssa.Function, args []Val) Val {
	n := fullName(fn)
	if f, ok := intrinsicTable[n]; ok {
		return f(x, st, site, fn, args)
	}
	for _, p := range noEffectPrefixes {
		if strings.HasPrefix(n, p) {
			x.trust("output/formatting functions (" + strings.TrimSuffix(p, ".") + ") have no effect on modelled state")
			return freshResults(x, st, fn)
		}
	}
	// packages handled as opaque, effect-free, logged
	pkg := fn.Pkg.Pkg.Path()
	switch pkg {
	case "github.com/weedbox/syncsaga", "github.com/weedbox/timebank", "github.com/weedbox/pokerface/settlement":
		x.trust(pkg + ": methods touch only their own object and run callbacks later or never (no claim about when)")
		recv := Val{K: VOpaque}
		rest := args
		if fn.Signature.Recv() != nil && len(args) > 0 {
			recv = args[0]
			rest = args[1:]
		}
		return x.externalCall(st, shortFuncName(fn), recv, rest, fn.Signature.Results())
	}
	x.trust("no model for " + n + ": results unconstrained, no effect on modelled state")
	return freshResults(x, st, fn)
}

func freshResults(x *Exec, st *State, fn *ssa.Function) Val {
	var rs []Val
	res := fn.Signature.Results()
	for i := 0; i < res.Len(); i++ {
		v := freshVal(res.At(i).Type(), fn.Name())
		x.noteLoaded(st, v)
		rs = append(rs, v)
	}
	return tupleOf(rs)
}

func noEffect(x *Exec, st *State, site ssa.Instruction, fn *ssa.Function, args []Val) Val {
	return freshResults(x, st, fn)
}
func opaqueResult(x *Exec, st *State, site ssa.Instruction, fn *ssa.Function, args []Val) Val {
	return freshResults(x, st, fn)
}
func freshString(x *Exec, st *State, site ssa.Instruction, fn *ssa.Function, args []Val) Val {
	x.trust("string formatting results are uninterpreted")
	return freshResults(x, st, fn)
}

// ---- locks: ghost flag per mutex place ----

func lockIntr(acquire, read bool) intrinsicFn {
	return func(x *Exec, st *State, site ssa.Instruction, fn *ssa.Function, args []Val) Val {
		mu := args[0]
		if mu.K != VPtr {
			unsupported("lock on non-pointer")
		}
		famName := mu.Prefix + "#held"
		fam := st.heap.Get(famName, len(mu.Idx), SBool)
		held := fam.Select(mu.Idx)
		// one critical section (C16): a mutex named in the function's `guarded` clause is not taken again once the
		// function has released it — otherwise what it checked under the lock may no longer hold when it acts
		// (the serialisability argument needs every guarded operation to be ONE critical section)
		guardedHere := false
		for _, g := range x.guards {
			if g.fam == famName {
				guardedHere = true
			}
		}
		relName := mu.Prefix + "#released"
		if acquire {
			x.safety(st, site, "lock", Not(held)) // re-acquiring a held lock deadlocks
			if guardedHere {
				rel := st.heap.Get(relName, len(mu.Idx), SBool).Select(mu.Idx)
				x.safety(st, site, "onesection", Not(rel))
			}
			st.heap.Set(famName, fam.Store(mu.Idx, True()))
		} else {
			x.safety(st, site, "lock", held)
			st.heap.Set(famName, fam.Store(mu.Idx, False()))
			if guardedHere {
				rf := st.heap.Get(relName, len(mu.Idx), SBool)
				st.heap.Set(relName, rf.Store(mu.Idx, True()))
			}
		}
		return Val{K: VTuple}
	}
}

// ---- sync.Map as a ghost map keyed by the payload of the key ----

func smFams(h *Heap, m Val) (dom, tag, ref *HNode, pre string) {
	pre = m.Prefix
	ar := len(m.Idx) + 1
	return h.Get(pre+"#smdom", ar, SBool), h.Get(pre+"#smtag", ar, SInt), h.Get(pre+"#smref", ar, SInt), pre
}

func smKey(m Val, k Val) []*Term {
	if k.K != VIface {
		unsupported("sync.Map key is not an interface value")
	}
	return append(append([]*Term{}, m.Idx...), k.T)
}

func syncMapLoad(x *Exec, st *State, site ssa.Instruction, fn *ssa.Function, args []Val) Val {
	dom, tag, ref, _ := smFams(st.heap, args[0])
	k := smKey(args[0], args[1])
	ok := dom.Select(k)
	anyT := fn.Signature.Results().At(0).Type()
	v := Val{K: VIface, Typ: anyT, Tag: Ite(ok, tag.Select(k), IntLit(0)), T: Ite(ok, ref.Select(k), IntLit(0))}
	return Val{K: VTuple, Fields: []Val{v, scalarVal(ok, types.Typ[types.Bool])}}
}

func syncMapStore(x *Exec, st *State, site ssa.Instruction, fn *ssa.Function, args []Val) Val {
	dom, tag, ref, pre := smFams(st.heap, args[0])
	k := smKey(args[0], args[1])
	v := args[2]
	if v.K != VIface {
		unsupported("sync.Map value is not an interface value")
	}
	st.heap.Set(pre+"#smdom", dom.Store(k, True()))
	st.heap.Set(pre+"#smtag", tag.Store(k, v.Tag))
	st.heap.Set(pre+"#smref", ref.Store(k, v.T))
	return Val{K: VTuple}
}

func syncMapDelete(x *Exec, st *State, site ssa.Instruction, fn *ssa.Function, args []Val) Val {
	dom, _, _, pre := smFams(st.heap, args[0])
	k := smKey(args[0], args[1])
	st.heap.Set(pre+"#smdom", dom.Store(k, False()))
	return Val{K: VTuple}
}

// ---- funk ----

func unbox(v Val) Val {
	if v.K == VIface && len(v.Fields) == 1 {
		return v.Fields[0]
	}
	return v
}

func funkContains(x *Exec, st *State, site ssa.Instruction, fn *ssa.Function, args []Val) Val {
	x.trust("go-funk v0.9.3 Contains: slice membership / map key membership / predicate over slice elements")
	in := unbox(args[0])
	el := unbox(args[1])
	bt := types.Typ[types.Bool]
	switch in.K {
	case VMap:
		return scalarVal(mapDom(st.heap, in, keyTerm(el)), bt)
	case VSlice:
		et := sliceElemType(in.Typ)
		pred := func(i *Term) *Term {
			ev := loadPlace(st.heap, elemPlace(in, i), et)
			if el.K == VFunc && el.Fn != nil {
				r := x.inlineCall(st, el.Fn, []Val{ev}, el.Bind)
				return r.T
			}
			return valEq(ev, el)
		}
		if n, ok := in.Len.IntVal(); ok && n <= 16 {
			var ps []*Term
			for i := int64(0); i < n; i++ {
				ps = append(ps, pred(IntLit(i)))
			}
			return scalarVal(Or(ps...), bt)
		}
		if el.K == VFunc || true {
			// symbolic length, bounded by the universal batch bound 10 (obligation): finite expansion
			st1 := &State{pc: st.pc, heap: st.heap, alloc: st.alloc}
			x.oblige(st1, "safety", fmt.Sprintf("contains-bound#%d", len(x.obls)), Le(in.Len, IntLit(10)), "slice searched by funk.Contains has at most 10 elements")
			x.assume(st, Le(in.Len, IntLit(10)))
			var ps []*Term
			savePc := st.pc
			for i := int64(0); i < 10; i++ {
				st.pc = And(savePc, Lt(IntLit(i), in.Len))
				ps = append(ps, And(Lt(IntLit(i), in.Len), pred(IntLit(i))))
				st.pc = savePc
			}
			return scalarVal(Or(ps...), bt)
		}
		// symbolic length: r <=> exists i. pred(i), with a witness for the positive direction
		r := FreshVar("contains", SBool)
		w := FreshVar("contains.w", SInt)
		x.assume(st, Implies(r, And(Le(IntLit(0), w), Lt(w, in.Len), pred(w))))
		quantCounter++
		q := Var(fmt.Sprintf("ci!q%d", quantCounter), SInt)
		x.assume(st, Implies(Not(r), Forall(q, Implies(And(Le(IntLit(0), q), Lt(q, in.Len)), Not(pred(q))))))
		return scalarVal(r, bt)
	}
	unsupported("funk.Contains on value of kind %d", in.K)
	return Val{}
}

// funk.Filter(slice, pred): order-preserving subsequence. Only literal-length inputs are expanded;
// otherwise the result is a fresh slice constrained by length bounds and membership.
func funkFilter(x *Exec, st *State, site ssa.Instruction, fn *ssa.Function, args []Val) Val {
	x.trust("go-funk v0.9.3 Filter: order-preserving subsequence of the elements satisfying the predicate")
	in := unbox(args[0])
	p := unbox(args[1])
	if in.K != VSlice || p.K != VFunc || p.Fn == nil {
		unsupported("funk.Filter with non-literal predicate")
	}
	et := sliceElemType(in.Typ)
	anyT := fn.Signature.Results().At(0).Type()
	ref := x.freshRef(st)
	out := Val{K: VSlice, Typ: in.Typ, Arr: ref, Off: IntLit(0)}
	if n, ok := in.Len.IntVal(); ok && n <= 16 {
		cnt := IntLit(0)
		for i := int64(0); i < n; i++ {
			ev := loadPlace(st.heap, elemPlace(in, IntLit(i)), et)
			keep := x.inlineCall(st, p.Fn, []Val{ev}, p.Bind).T
			// conditional store at position cnt
			h2 := st.heap.Clone()
			storePlace(h2, Place{"elem." + typeKey(et), []*Term{ref, cnt}}, et, ev)
			st.heap = MergeHeaps(keep, h2, st.heap)
			cnt = Add(cnt, Ite(keep, IntLit(1), IntLit(0)))
		}
		out.Len = cnt
	} else if true {
		// symbolic length bounded by the universal batch bound 10 (obligation): exact expansion
		st1 := &State{pc: st.pc, heap: st.heap, alloc: st.alloc}
		x.oblige(st1, "safety", fmt.Sprintf("filter-bound#%d", len(x.obls)), Le(in.Len, IntLit(10)), "slice filtered by funk.Filter has at most 10 elements")
		x.assume(st, Le(in.Len, IntLit(10)))
		cnt := IntLit(0)
		savePc := st.pc
		for i := int64(0); i < 10; i++ {
			ev := loadPlace(st.heap, elemPlace(in, IntLit(i)), et)
			st.pc = And(savePc, Lt(IntLit(i), in.Len))
			pv := x.inlineCall(st, p.Fn, []Val{ev}, p.Bind).T
			st.pc = savePc
			keep := And(Lt(IntLit(i), in.Len), pv)
			h2 := st.heap.Clone()
			storePlace(h2, Place{"elem." + typeKey(et), []*Term{ref, cnt}}, et, ev)
			st.heap = MergeHeaps(keep, h2, st.heap)
			cnt = Add(cnt, Ite(keep, IntLit(1), IntLit(0)))
		}
		out.Len = cnt
	} else {
		ln := FreshVar("filter.len", SInt)
		x.assume(st, And(Le(IntLit(0), ln), Le(ln, in.Len)))
		out.Len = ln
		// every element of the result satisfies the predicate and comes from the input
		quantCounter++
		q := Var(fmt.Sprintf("fi!q%d", quantCounter), SInt)
		ev := loadPlace(st.heap, Place{"elem." + typeKey(et), []*Term{ref, q}}, et)
		keep := x.inlineCall(st, p.Fn, []Val{ev}, p.Bind).T
		x.assume(st, Forall(q, Implies(And(Le(IntLit(0), q), Lt(q, ln)), keep)))
		// count characterisation through an uninterpreted counting function is not provided:
		// callers needing exact cardinality must use literal lengths
	}
	return Val{K: VIface, Typ: anyT, Tag: IntLit(x.P.typeTag(in.Typ)), T: ref, Fields: []Val{out}}
}

// sort.Slice(s, less) where less is i,j -> s[i] < s[j] on an int slice: result is an ascending
// permutation. Modelled for literal lengths through fresh cells constrained to be sorted and to
// be a permutation (by mutual membership and, for distinct inputs, distinctness).
func sortSlice(x *Exec, st *State, site ssa.Instruction, fn *ssa.Function, args []Val) Val {
	x.trust("sort.Slice with less = s[i] < s[j]: the slice becomes an ascending permutation of itself")
	s := unbox(args[0])
	if s.K != VSlice || !isIntT(sliceElemType(s.Typ)) {
		unsupported("sort.Slice on non-int slice")
	}
	x.permute(st, s, true)
	return Val{K: VTuple}
}

func randShuffle(x *Exec, st *State, site ssa.Instruction, fn *ssa.Function, args []Val) Val {
	x.trust("(*rand.Rand).Shuffle with a swap closure on one int slice: the slice becomes some permutation of itself")
	// the slice is captured by the swap closure
	sw := args[2]
	if sw.K != VFunc || sw.Fn == nil || len(sw.Bind) != 1 {
		unsupported("Shuffle with an unrecognised swap function")
	}
	cell := sw.Bind[0] // pointer to the captured slice variable
	pt := cell.Typ.Underlying().(*types.Pointer)
	s := loadPlace(st.heap, ptrPlace(cell), pt.Elem())
	if s.K != VSlice || !isIntT(sliceElemType(s.Typ)) {
		unsupported("Shuffle on non-int slice")
	}
	x.permute(st, s, false)
	return Val{K: VTuple}
}

// permute: replace the contents of int slice s (in place) by a permutation of them.
func (x *Exec) permute(st *State, s Val, sorted bool) {
	fam := st.heap.Get("elem.int", 2, SInt)
	n, ok := s.Len.IntVal()
	if !ok && x.hasCfg {
		// length bounded by the configuration value: guarded permutation over B positions
		B := int64(x.cfgVal)
		st1 := &State{pc: st.pc, heap: st.heap, alloc: st.alloc}
		x.oblige(st1, "safety", fmt.Sprintf("permute-bound#%d", len(x.obls)), Le(s.Len, IntLit(B)), "slice being permuted has at most "+fmt.Sprint(B)+" elements")
		x.assume(st, Le(s.Len, IntLit(B)))
		olds := make([]*Term, B)
		news := make([]*Term, B)
		ps := make([]*Term, B)
		nf := fam
		for i := int64(0); i < B; i++ {
			olds[i] = fam.Select([]*Term{s.Arr, Add(s.Off, IntLit(i))})
		}
		for i := int64(0); i < B; i++ {
			in := Lt(IntLit(i), s.Len)
			news[i] = FreshVar("perm", SInt)
			ps[i] = FreshVar("perm.p", SInt)
			nf = nf.Store([]*Term{s.Arr, Add(s.Off, IntLit(i))}, Ite(in, news[i], olds[i]))
			x.assume(st, Implies(in, And(Le(IntLit(0), ps[i]), Lt(ps[i], s.Len))))
			pick := olds[B-1]
			for k := B - 2; k >= 0; k-- {
				pick = Ite(Eq(ps[i], IntLit(k)), olds[k], pick)
			}
			x.assume(st, Implies(in, Eq(news[i], pick)))
			for j := int64(0); j < i; j++ {
				x.assume(st, Implies(in, Neq(ps[i], ps[j])))
			}
		}
		// the inverse direction (a permutation is onto): every old element has a new position
		for j := int64(0); j < B; j++ {
			in := Lt(IntLit(j), s.Len)
			q := FreshVar("perm.q", SInt)
			x.assume(st, Implies(in, And(Le(IntLit(0), q), Lt(q, s.Len))))
			pick := news[B-1]
			for k := B - 2; k >= 0; k-- {
				pick = Ite(Eq(q, IntLit(k)), news[k], pick)
			}
			x.assume(st, Implies(in, Eq(olds[j], pick)))
		}
		if sorted {
			for i := int64(0); i+1 < B; i++ {
				x.assume(st, Implies(Lt(IntLit(i+1), s.Len), Le(news[i], news[i+1])))
			}
		}
		st.heap.Set("elem.int", nf)
		return
	}
	if !ok {
		// symbolic length: contents become unknown but membership is preserved both ways
		nb := freshBase("elem.int!perm", 2, SInt)
		nf := fam.RowCopy(s.Arr, nb, s.Arr)
		st.heap.Set("elem.int", nf)
		quantCounter++
		q := Var(fmt.Sprintf("pm!q%d", quantCounter), SInt)
		quantCounter++
		w := Var(fmt.Sprintf("pm!w%d", quantCounter), SInt)
		inR := func(v *Term) *Term { return And(Le(s.Off, v), Lt(v, Add(s.Off, s.Len))) }
		x.assume(st, Forall(q, Implies(inR(q), Exists(w, And(inR(w), Eq(nf.Select([]*Term{s.Arr, q}), fam.Select([]*Term{s.Arr, w})))))))
		x.assume(st, Forall(q, Implies(inR(q), Exists(w, And(inR(w), Eq(fam.Select([]*Term{s.Arr, q}), nf.Select([]*Term{s.Arr, w})))))))
		return
	}
	if n > 12 {
		unsupported("permutation of %d elements", n)
	}
	olds := make([]*Term, n)
	news := make([]*Term, n)
	nf := fam
	for i := int64(0); i < n; i++ {
		olds[i] = fam.Select([]*Term{s.Arr, Add(s.Off, IntLit(i))})
		news[i] = FreshVar("perm", SInt)
		nf = nf.Store([]*Term{s.Arr, Add(s.Off, IntLit(i))}, news[i])
	}
	st.heap.Set("elem.int", nf)
	// permutation via an index bijection p: news[i] = olds[p_i], p injective
	ps := make([]*Term, n)
	for i := int64(0); i < n; i++ {
		ps[i] = FreshVar("perm.p", SInt)
		x.assume(st, And(Le(IntLit(0), ps[i]), Lt(ps[i], IntLit(n))))
		var pick *Term = olds[n-1]
		for k := n - 2; k >= 0; k-- {
			pick = Ite(Eq(ps[i], IntLit(k)), olds[k], pick)
		}
		x.assume(st, Eq(news[i], pick))
		for j := int64(0); j < i; j++ {
			x.assume(st, Neq(ps[i], ps[j]))
		}
	}
	if sorted {
		for i := int64(0); i+1 < n; i++ {
			x.assume(st, Le(news[i], news[i+1]))
		}
	}
}

func randFloat(x *Exec, st *State, site ssa.Instruction, fn *ssa.Function, args []Val) Val {
	v := FreshVar("rand.f", SReal)
	x.assume(st, And(Le(RealLit("0.0"), v), Lt(v, RealLit("1.0"))))
	return scalarVal(v, types.Typ[types.Float64])
}

func randIntn(x *Exec, st *State, site ssa.Instruction, fn *ssa.Function, args []Val) Val {
	n := args[len(args)-1].T
	x.safety(st, site, "randarg", Gt(n, IntLit(0))) // rand.Intn / Int63n panic when n <= 0
	v := FreshVar("rand.n", SInt)
	x.assume(st, And(Le(IntLit(0), v), Lt(v, n)))
	return scalarVal(v, fn.Signature.Results().At(0).Type())
}

// ---- time: a time.Time value is modelled by its Unix seconds in field 1 (ext) ----

func timeVal(sec *Term, t types.Type) Val {
	v := zeroVal(t)
	v.Fields[1] = scalarVal(sec, types.Typ[types.Int64])
	return v
}

func timeSec(v Val) *Term {
	if v.K != VStruct || len(v.Fields) < 2 {
		unsupported("time value of unexpected shape")
	}
	return v.Fields[1].T
}

func timeNow(x *Exec, st *State, site ssa.Instruction, fn *ssa.Function, args []Val) Val {
	x.trust("time model: time.Now() is a fresh instant; Add/Unix are exact for whole seconds")
	now := st.heap.Get("ghost.now", 0, SInt).Select(nil)
	return timeVal(now, fn.Signature.Results().At(0).Type())
}

func timeUnix(x *Exec, st *State, site ssa.Instruction, fn *ssa.Function, args []Val) Val {
	return scalarVal(timeSec(args[0]), types.Typ[types.Int64])
}

func timeUnixNano(x *Exec, st *State, site ssa.Instruction, fn *ssa.Function, args []Val) Val {
	return scalarVal(Mul(timeSec(args[0]), IntLit(1000000000)), types.Typ[types.Int64])
}

func timeAdd(x *Exec, st *State, site ssa.Instruction, fn *ssa.Function, args []Val) Val {
	d := args[1].T // nanoseconds
	return timeVal(Add(timeSec(args[0]), GoDiv(d, IntLit(1000000000))), fn.Signature.Results().At(0).Type())
}

func timeFromUnix(x *Exec, st *State, site ssa.Instruction, fn *ssa.Function, args []Val) Val {
	return timeVal(args[0].T, fn.Signature.Results().At(0).Type())
}

func errorsIs(x *Exec, st *State, site ssa.Instruction, fn *ssa.Function, args []Val) Val {
	x.trust("errors.Is on the module's sentinel errors is pointer equality (they are never wrapped)")
	return scalarVal(And(Eq(args[0].T, args[1].T), Neq(args[0].T, IntLit(0))), types.Typ[types.Bool])
}

func jsonMarshal(x *Exec, st *State, site ssa.Instruction, fn *ssa.Function, args []Val) Val {
	x.trust("encoding/json.Marshal has no effect on modelled state; its output is uninterpreted")
	return freshResults(x, st, fn)
}

// json.Unmarshal(data, &v): the target is overwritten; every reference it then holds (one level
// deep) is either nil or a freshly allocated object, disjoint from everything that existed before.
func jsonUnmarshal(x *Exec, st *State, site ssa.Instruction, fn *ssa.Function, args []Val) Val {
	x.trust("encoding/json.Unmarshal overwrites its target with freshly allocated data (references one level deep are nil or new objects); decoded values are otherwise unconstrained")
	tgt := unbox(args[1])
	if tgt.K != VPtr {
		unsupported("json.Unmarshal into a non-pointer")
	}
	et := tgt.Typ.Underlying().(*types.Pointer).Elem()
	var mk func(t types.Type, hint string) Val
	mk = func(t types.Type, hint string) Val {
		switch kindOf(t) {
		case VPtr:
			r := Ite(FreshVar("json.nil", SBool), IntLit(0), x.freshRef(st))
			return Val{K: VPtr, Typ: t, Prefix: objPrefix(t.Underlying().(*types.Pointer).Elem()), Idx: []*Term{r}}
		case VMap:
			return Val{K: VMap, Typ: t, T: Ite(FreshVar("json.nil", SBool), IntLit(0), x.freshRef(st))}
		case VSlice:
			isNil := FreshVar("json.nil", SBool)
			ln := FreshVar("json.len", SInt)
			x.assume(st, Ge(ln, IntLit(0)))
			return Val{K: VSlice, Typ: t, Arr: Ite(isNil, IntLit(0), x.freshRef(st)), Off: IntLit(0), Len: Ite(isNil, IntLit(0), ln)}
		case VStruct:
			if _, ok := t.Underlying().(*types.Array); ok {
				return freshVal(t, hint)
			}
			s := structFields(t)
			v := Val{K: VStruct, Typ: t}
			for i := 0; i < s.NumFields(); i++ {
				v.Fields = append(v.Fields, mk(s.Field(i).Type(), hint+"."+s.Field(i).Name()))
			}
			return v
		}
		return freshVal(t, hint)
	}
	storePlace(st.heap, ptrPlace(tgt), et, mk(et, "json"))
	return freshResults(x, st, fn)
}
