package main

import (
	"fmt"
	"go/types"
	"strings"

	"golang.org/x/tools/go/ssa"
)

type VKind byte

const (
	VScalar VKind = iota // int, bool, string, float, error, func-less things: one term
	VPtr                 // place (Prefix, Idx)
	VSlice
	VMap // T = ref
	VStruct
	VIface // Tag, T = payload ref
	VTuple
	VFunc
	VIter
	VOpaque // value we do not model (fmt args etc.)
)

type Val struct {
	K      VKind
	Typ    types.Type
	T      *Term
	Prefix string
	Idx    []*Term
	Arr    *Term
	Off    *Term
	Len    *Term
	Fields []Val
	Tag    *Term
	Fn     *ssa.Function
	Bind   []Val
	Iter   *mapIter
	Moved  bool
	Alts   []FuncAlt // VFunc: a choice among known closures (after a merge)
}

type FuncAlt struct {
	Cond *Term
	Fn   *ssa.Function
	Bind []Val
}

type mapIter struct {
	m      Val
	n      int // iterations done
	keys   []*Term
	lenAt  *Term
	str    bool
	slice  bool
	asc    bool
	lo, hi int
	forced []*Term
}

type UnsupportedError struct{ msg string }

func (e UnsupportedError) Error() string { return e.msg }

func unsupported(format string, a ...interface{}) {
	panic(UnsupportedError{fmt.Sprintf(format, a...)})
}

func pkgShort(p *types.Package) string {
	if p == nil {
		return ""
	}
	return p.Name()
}

func typeKey(t types.Type) string {
	switch x := t.(type) {
	case *types.Named:
		o := x.Obj()
		if o.Pkg() == nil {
			return o.Name()
		}
		return pkgShort(o.Pkg()) + "." + o.Name()
	case *types.Alias:
		return typeKey(types.Unalias(x))
	case *types.Basic:
		switch x.Kind() {
		case types.Int, types.Int8, types.Int16, types.Int32, types.Int64, types.Uint, types.Uint8, types.Uint16, types.Uint32, types.Uint64, types.UntypedInt, types.Uintptr:
			return "int"
		case types.Float32, types.Float64, types.UntypedFloat:
			return "float"
		case types.Bool, types.UntypedBool:
			return "bool"
		case types.String, types.UntypedString:
			return "string"
		case types.UntypedNil:
			return "nil"
		}
		return x.Name()
	case *types.Pointer:
		return "*" + typeKey(x.Elem())
	case *types.Slice:
		return "[]" + typeKey(x.Elem())
	case *types.Array:
		return fmt.Sprintf("[%d]%s", x.Len(), typeKey(x.Elem()))
	case *types.Map:
		return "map[" + typeKey(x.Key()) + "]" + typeKey(x.Elem())
	case *types.Interface:
		if x.NumMethods() == 0 {
			return "any"
		}
		return "iface"
	case *types.Signature:
		return "func"
	case *types.Struct:
		var fs []string
		for i := 0; i < x.NumFields(); i++ {
			fs = append(fs, x.Field(i).Name()+":"+typeKey(x.Field(i).Type()))
		}
		return "struct{" + strings.Join(fs, ";") + "}"
	case *types.Tuple:
		return "tuple"
	case *types.Chan:
		return "chan"
	}
	return t.String()
}

func isErrorType(t types.Type) bool {
	if n, ok := t.(*types.Named); ok && n.Obj().Pkg() == nil && n.Obj().Name() == "error" {
		return true
	}
	return false
}

func isFloat(t types.Type) bool {
	b, ok := t.Underlying().(*types.Basic)
	return ok && b.Info()&types.IsFloat != 0
}

func isBoolT(t types.Type) bool {
	b, ok := t.Underlying().(*types.Basic)
	return ok && b.Info()&types.IsBoolean != 0
}

func isStringT(t types.Type) bool {
	b, ok := t.Underlying().(*types.Basic)
	return ok && b.Info()&types.IsString != 0
}

func isIntT(t types.Type) bool {
	b, ok := t.Underlying().(*types.Basic)
	return ok && b.Info()&types.IsInteger != 0
}

// kindOf classifies a Go type.
func kindOf(t types.Type) VKind {
	if isErrorType(t) {
		return VScalar
	}
	switch u := t.Underlying().(type) {
	case *types.Basic:
		return VScalar
	case *types.Pointer:
		return VPtr
	case *types.Slice:
		return VSlice
	case *types.Map:
		return VMap
	case *types.Struct:
		return VStruct
	case *types.Interface:
		_ = u
		return VIface
	case *types.Signature:
		return VFunc
	case *types.Tuple:
		return VTuple
	case *types.Array:
		return VStruct // handled specially
	case *types.Chan:
		return VOpaque
	}
	return VOpaque
}

func sortOfType(t types.Type) Sort {
	if isErrorType(t) {
		return SInt
	}
	if isBoolT(t) {
		return SBool
	}
	if isFloat(t) {
		return SReal
	}
	return SInt
}

func zeroTerm(s Sort) *Term {
	switch s {
	case SBool:
		return False()
	case SReal:
		return RealLit("0.0")
	}
	return IntLit(0)
}

func scalarVal(t *Term, typ types.Type) Val { return Val{K: VScalar, T: t, Typ: typ} }

func structFields(t types.Type) *types.Struct {
	s, _ := t.Underlying().(*types.Struct)
	return s
}

// zeroVal: Go zero value of a type.
func zeroVal(t types.Type) Val {
	switch kindOf(t) {
	case VScalar:
		return scalarVal(zeroTerm(sortOfType(t)), t)
	case VPtr:
		return Val{K: VPtr, Typ: t, Prefix: objPrefix(t.Underlying().(*types.Pointer).Elem()), Idx: []*Term{IntLit(0)}}
	case VSlice:
		return Val{K: VSlice, Typ: t, Arr: IntLit(0), Off: IntLit(0), Len: IntLit(0)}
	case VMap:
		return Val{K: VMap, Typ: t, T: IntLit(0)}
	case VIface:
		return Val{K: VIface, Typ: t, Tag: IntLit(0), T: IntLit(0)}
	case VFunc:
		return Val{K: VFunc, Typ: t, T: IntLit(0)}
	case VStruct:
		if a, ok := t.Underlying().(*types.Array); ok {
			v := Val{K: VStruct, Typ: t}
			for i := int64(0); i < a.Len(); i++ {
				v.Fields = append(v.Fields, zeroVal(a.Elem()))
			}
			return v
		}
		s := structFields(t)
		v := Val{K: VStruct, Typ: t}
		for i := 0; i < s.NumFields(); i++ {
			v.Fields = append(v.Fields, zeroVal(s.Field(i).Type()))
		}
		return v
	}
	return Val{K: VOpaque, Typ: t}
}

// objPrefix: family prefix of an object of type t addressed by a whole-object pointer.
func objPrefix(t types.Type) string {
	switch kindOf(t) {
	case VStruct:
		if _, ok := t.(*types.Named); ok {
			return typeKey(t)
		}
		if _, ok := t.(*types.Alias); ok {
			return typeKey(t)
		}
		return "cell." + typeKey(t)
	}
	return "cell." + typeKey(t)
}

func isSyncType(t types.Type) bool {
	if n, ok := t.(*types.Named); ok && n.Obj().Pkg() != nil {
		p := n.Obj().Pkg().Path()
		return p == "sync" || p == "sync/atomic"
	}
	return false
}

// freshVal: an arbitrary symbolic value of type t (for parameters and havoc).
func freshVal(t types.Type, hint string) Val {
	switch kindOf(t) {
	case VScalar:
		return scalarVal(FreshVar(hint, sortOfType(t)), t)
	case VPtr:
		return Val{K: VPtr, Typ: t, Prefix: objPrefix(t.Underlying().(*types.Pointer).Elem()), Idx: []*Term{FreshVar(hint, SInt)}}
	case VSlice:
		return Val{K: VSlice, Typ: t, Arr: FreshVar(hint+".arr", SInt), Off: FreshVar(hint+".off", SInt), Len: FreshVar(hint+".len", SInt)}
	case VMap:
		return Val{K: VMap, Typ: t, T: FreshVar(hint, SInt)}
	case VIface:
		return Val{K: VIface, Typ: t, Tag: FreshVar(hint+".tag", SInt), T: FreshVar(hint+".ref", SInt)}
	case VFunc:
		return Val{K: VFunc, Typ: t, T: FreshVar(hint+".fn", SInt)}
	case VStruct:
		if a, ok := t.Underlying().(*types.Array); ok {
			v := Val{K: VStruct, Typ: t}
			for i := int64(0); i < a.Len(); i++ {
				v.Fields = append(v.Fields, freshVal(a.Elem(), fmt.Sprintf("%s[%d]", hint, i)))
			}
			return v
		}
		s := structFields(t)
		v := Val{K: VStruct, Typ: t}
		for i := 0; i < s.NumFields(); i++ {
			v.Fields = append(v.Fields, freshVal(s.Field(i).Type(), hint+"."+s.Field(i).Name()))
		}
		return v
	}
	return Val{K: VOpaque, Typ: t}
}

// place: a memory location of Go type typ.
type Place struct {
	Prefix string
	Idx    []*Term
}

func ptrPlace(v Val) Place {
	if v.K != VPtr {
		panic(fmt.Sprintf("not a pointer value: kind %d type %v", v.K, v.Typ))
	}
	return Place{v.Prefix, v.Idx}
}

func (p Place) field(name string) Place { return Place{p.Prefix + "." + name, p.Idx} }
func (p Place) elem(i *Term) Place {
	return Place{p.Prefix + "[]", append(append([]*Term{}, p.Idx...), i)}
}

// refLoadedHook is told about every reference-valued term read from memory (set by the executor:
// references found in the initial heap lie below alloc0, also when a contract reads them).
var refLoadedHook func(t *Term)

func loadPlace(h *Heap, p Place, t types.Type) Val {
	v := loadPlace0(h, p, t)
	if refLoadedHook != nil {
		switch v.K {
		case VPtr:
			if len(v.Idx) == 1 {
				refLoadedHook(v.Idx[0])
			}
		case VMap, VIface:
			if v.T != nil {
				refLoadedHook(v.T)
			}
		case VSlice:
			refLoadedHook(v.Arr)
		}
	}
	return v
}

// loadPlace0 reads a value of type t from the place.
func loadPlace0(h *Heap, p Place, t types.Type) Val {
	switch kindOf(t) {
	case VScalar:
		return scalarVal(h.Get(p.Prefix, len(p.Idx), sortOfType(t)).Select(p.Idx), t)
	case VPtr:
		r := h.Get(p.Prefix, len(p.Idx), SInt).Select(p.Idx)
		return Val{K: VPtr, Typ: t, Prefix: objPrefix(t.Underlying().(*types.Pointer).Elem()), Idx: []*Term{r}}
	case VMap:
		return Val{K: VMap, Typ: t, T: h.Get(p.Prefix, len(p.Idx), SInt).Select(p.Idx)}
	case VFunc:
		return Val{K: VFunc, Typ: t, T: h.Get(p.Prefix, len(p.Idx), SInt).Select(p.Idx)}
	case VSlice:
		return Val{K: VSlice, Typ: t,
			Arr: h.Get(p.Prefix+"#arr", len(p.Idx), SInt).Select(p.Idx),
			Off: h.Get(p.Prefix+"#off", len(p.Idx), SInt).Select(p.Idx),
			Len: h.Get(p.Prefix+"#len", len(p.Idx), SInt).Select(p.Idx)}
	case VIface:
		return Val{K: VIface, Typ: t,
			Tag: h.Get(p.Prefix+"#tag", len(p.Idx), SInt).Select(p.Idx),
			T:   h.Get(p.Prefix+"#ref", len(p.Idx), SInt).Select(p.Idx)}
	case VStruct:
		if isSyncType(t) {
			return Val{K: VOpaque, Typ: t}
		}
		if a, ok := t.Underlying().(*types.Array); ok {
			v := Val{K: VStruct, Typ: t}
			for i := int64(0); i < a.Len(); i++ {
				v.Fields = append(v.Fields, loadPlace(h, p.elem(IntLit(i)), a.Elem()))
			}
			return v
		}
		s := structFields(t)
		v := Val{K: VStruct, Typ: t}
		for i := 0; i < s.NumFields(); i++ {
			v.Fields = append(v.Fields, loadPlace(h, p.field(s.Field(i).Name()), s.Field(i).Type()))
		}
		return v
	}
	return Val{K: VOpaque, Typ: t}
}

func wholeObjRef(v Val) *Term {
	if v.K != VPtr {
		panic("wholeObjRef: not a pointer")
	}
	pt, ok := v.Typ.Underlying().(*types.Pointer)
	if !ok {
		panic("wholeObjRef: type is not a pointer")
	}
	if len(v.Idx) != 1 || v.Prefix != objPrefix(pt.Elem()) {
		unsupported("interior pointer (%s, %d indices) of type %v stored or compared as an object pointer", v.Prefix, len(v.Idx), v.Typ)
	}
	return v.Idx[0]
}

// storePlace writes v (of type t) into the place.
func storePlace(h *Heap, p Place, t types.Type, v Val) {
	switch kindOf(t) {
	case VScalar:
		if v.K != VScalar {
			unsupported("store of non-scalar value (kind %d) into scalar place %s of type %v", v.K, p.Prefix, t)
		}
		f := h.Get(p.Prefix, len(p.Idx), sortOfType(t))
		h.Set(p.Prefix, f.Store(p.Idx, v.T))
	case VPtr:
		f := h.Get(p.Prefix, len(p.Idx), SInt)
		h.Set(p.Prefix, f.Store(p.Idx, wholeObjRef(v)))
	case VMap, VFunc:
		if v.T == nil {
			unsupported("store of unmodelled %v value", t)
		}
		f := h.Get(p.Prefix, len(p.Idx), SInt)
		h.Set(p.Prefix, f.Store(p.Idx, v.T))
	case VSlice:
		for _, c := range []struct {
			s string
			t *Term
		}{{"#arr", v.Arr}, {"#off", v.Off}, {"#len", v.Len}} {
			f := h.Get(p.Prefix+c.s, len(p.Idx), SInt)
			h.Set(p.Prefix+c.s, f.Store(p.Idx, c.t))
		}
	case VIface:
		if v.K != VIface {
			unsupported("store of non-interface value into interface place")
		}
		f := h.Get(p.Prefix+"#tag", len(p.Idx), SInt)
		h.Set(p.Prefix+"#tag", f.Store(p.Idx, v.Tag))
		f = h.Get(p.Prefix+"#ref", len(p.Idx), SInt)
		h.Set(p.Prefix+"#ref", f.Store(p.Idx, v.T))
	case VStruct:
		if isSyncType(t) {
			return
		}
		if a, ok := t.Underlying().(*types.Array); ok {
			for i := int64(0); i < a.Len(); i++ {
				storePlace(h, p.elem(IntLit(i)), a.Elem(), v.Fields[i])
			}
			return
		}
		s := structFields(t)
		if v.K != VStruct || len(v.Fields) != s.NumFields() {
			unsupported("store of malformed struct value into %s", p.Prefix)
		}
		for i := 0; i < s.NumFields(); i++ {
			storePlace(h, p.field(s.Field(i).Name()), s.Field(i).Type(), v.Fields[i])
		}
	default:
		// opaque: ignore
	}
}

// placeFamilies lists (family, sort) pairs making up a place of type t (for havoc / frames).
func placeFamilies(prefix string, t types.Type, out *[]famRef) {
	switch kindOf(t) {
	case VScalar:
		*out = append(*out, famRef{prefix, sortOfType(t)})
	case VPtr, VMap, VFunc:
		*out = append(*out, famRef{prefix, SInt})
	case VSlice:
		*out = append(*out, famRef{prefix + "#arr", SInt}, famRef{prefix + "#off", SInt}, famRef{prefix + "#len", SInt})
	case VIface:
		*out = append(*out, famRef{prefix + "#tag", SInt}, famRef{prefix + "#ref", SInt})
	case VStruct:
		if isSyncType(t) {
			return
		}
		if a, ok := t.Underlying().(*types.Array); ok {
			placeFamilies(prefix+"[]", a.Elem(), out)
			return
		}
		s := structFields(t)
		for i := 0; i < s.NumFields(); i++ {
			placeFamilies(prefix+"."+s.Field(i).Name(), s.Field(i).Type(), out)
		}
	}
}

type famRef struct {
	name string
	sort Sort
}

// valIte merges two values of the same type.
func valIte(c *Term, a, b Val) Val {
	if c.IsTrue() {
		return a
	}
	if c.IsFalse() {
		return b
	}
	if a.K != b.K {
		if a.K == VOpaque || b.K == VOpaque {
			return Val{K: VOpaque, Typ: a.Typ}
		}
		unsupported("merge of values of different kinds (%d vs %d)", a.K, b.K)
	}
	switch a.K {
	case VScalar:
		return scalarVal(Ite(c, a.T, b.T), a.Typ)
	case VPtr:
		if a.Prefix != b.Prefix || len(a.Idx) != len(b.Idx) {
			unsupported("merge of pointers into different families (%s vs %s)", a.Prefix, b.Prefix)
		}
		idx := make([]*Term, len(a.Idx))
		for i := range idx {
			idx[i] = Ite(c, a.Idx[i], b.Idx[i])
		}
		return Val{K: VPtr, Typ: a.Typ, Prefix: a.Prefix, Idx: idx}
	case VSlice:
		return Val{K: VSlice, Typ: a.Typ, Arr: Ite(c, a.Arr, b.Arr), Off: Ite(c, a.Off, b.Off), Len: Ite(c, a.Len, b.Len)}
	case VMap:
		return Val{K: VMap, Typ: a.Typ, T: Ite(c, a.T, b.T)}
	case VIface:
		return Val{K: VIface, Typ: a.Typ, Tag: Ite(c, a.Tag, b.Tag), T: Ite(c, a.T, b.T)}
	case VFunc:
		if a.Fn != b.Fn {
			if a.T != nil && b.T != nil {
				out := Val{K: VFunc, Typ: a.Typ, T: Ite(c, a.T, b.T)}
				alts := func(v Val, cond *Term) []FuncAlt {
					if v.Fn != nil {
						return []FuncAlt{{cond, v.Fn, v.Bind}}
					}
					var r []FuncAlt
					for _, x := range v.Alts {
						r = append(r, FuncAlt{And(cond, x.Cond), x.Fn, x.Bind})
					}
					return r
				}
				out.Alts = append(alts(a, c), alts(b, Not(c))...)
				return out
			}
			unsupported("merge of distinct closures")
		}
		if a.Fn == nil {
			return Val{K: VFunc, Typ: a.Typ, T: Ite(c, a.T, b.T)}
		}
		out := Val{K: VFunc, Typ: a.Typ, Fn: a.Fn}
		if a.T != nil && b.T != nil {
			out.T = Ite(c, a.T, b.T)
		}
		for i := range a.Bind {
			out.Bind = append(out.Bind, valIte(c, a.Bind[i], b.Bind[i]))
		}
		return out
	case VStruct, VTuple:
		out := Val{K: a.K, Typ: a.Typ}
		if len(a.Fields) != len(b.Fields) {
			unsupported("merge of structs of different shapes")
		}
		for i := range a.Fields {
			out.Fields = append(out.Fields, valIte(c, a.Fields[i], b.Fields[i]))
		}
		return out
	case VOpaque:
		return a
	case VIter:
		if a.Iter == b.Iter {
			return a
		}
		unsupported("merge of distinct iterators")
	}
	unsupported("merge of value kind %d", a.K)
	return Val{}
}

// valEq: term for a == b (comparable Go values).
func valEq(a, b Val) *Term {
	switch a.K {
	case VScalar:
		if b.K == VIface { // error compared with interface? not expected
			unsupported("comparison scalar/interface")
		}
		return Eq(a.T, b.T)
	case VPtr:
		// nil comparisons and whole-object pointer comparisons
		if len(a.Idx) == 1 && len(b.Idx) == 1 {
			return Eq(a.Idx[0], b.Idx[0])
		}
		unsupported("comparison of interior pointers")
	case VMap:
		return Eq(a.T, b.T)
	case VSlice:
		// only comparison with nil is legal in Go
		return Eq(a.Arr, b.Arr)
	case VIface:
		return And(Eq(a.Tag, b.Tag), Eq(a.T, b.T))
	case VFunc:
		if a.T != nil && b.T != nil {
			return Eq(a.T, b.T)
		}
		if a.Fn != nil && b.T != nil {
			// closure vs nil
			return False()
		}
		if b.Fn != nil && a.T != nil {
			return False()
		}
		unsupported("comparison of function values")
	case VStruct:
		c := True()
		for i := range a.Fields {
			c = And(c, valEq(a.Fields[i], b.Fields[i]))
		}
		return c
	}
	unsupported("comparison of value kind %d", a.K)
	return nil
}

// string interning: Go string constants become distinct integer codes; "" is 0.
var strCodes = map[string]int64{"": 0}
var strByCode = map[int64]string{0: ""}

func strCode(s string) *Term {
	if c, ok := strCodes[s]; ok {
		return IntLit(c)
	}
	c := int64(len(strCodes)) + 1000
	strCodes[s] = c
	strByCode[c] = s
	return IntLit(c)
}
