package main

// Evaluation of contract expressions to SMT terms over a heap.

import (
	"fmt"
	"go/constant"
	"go/types"
	"strings"
)

type CEnv struct {
	x        *Exec
	vars     map[string]Val
	heap     *Heap
	old      *Heap
	alloc    *Term
	allocOld *Term
	pkg      *types.Package
	depth    int
	home     string // package path of the contract file the expression comes from (spec lookup starts there)
}

type CEvalError struct{ msg string }

func (e CEvalError) Error() string { return e.msg }

func cfail(format string, a ...interface{}) { panic(CEvalError{fmt.Sprintf(format, a...)}) }

func (x *Exec) newCEnv(st *State) *CEnv {
	ce := &CEnv{x: x, vars: map[string]Val{}, heap: st.heap, old: x.oldHeap, alloc: st.alloc, allocOld: x.alloc0}
	if x.fn != nil && x.fn.Pkg != nil {
		ce.pkg = x.fn.Pkg.Pkg
	}
	if x.contract != nil {
		ce.home = x.contract.Pkg
		if hp := x.P.spkgs[ce.home]; hp != nil && x.fn != nil && x.fn.Pkg != nil && x.fn.Pkg.Pkg.Path() != ce.home {
			// extern contract: identifiers resolve in the dependency's package, specs in the contract file's
		}
	}
	for k, v := range x.params {
		ce.vars[k] = v
	}
	if x.hasCfg {
		ce.vars[x.cfgVar] = scalarVal(IntLit(int64(x.cfgVal)), types.Typ[types.Int])
	}
	for k, v := range x.splitVals {
		ce.vars[k] = scalarVal(IntLit(int64(v)), types.Typ[types.Int])
	}
	return ce
}

func (ce *CEnv) withHeap(h *Heap) *CEnv {
	n := *ce
	n.heap = h
	return &n
}

func (ce *CEnv) bind(name string, v Val) *CEnv {
	n := *ce
	n.vars = make(map[string]Val, len(ce.vars)+1)
	for k, val := range ce.vars {
		n.vars[k] = val
	}
	n.vars[name] = v
	return &n
}

func (ce *CEnv) evalBool(e *CExpr) *Term {
	v := ce.eval(e)
	if v.K != VScalar || v.T.sort != SBool {
		cfail("expression %s is not boolean", e)
	}
	return v.T
}

func (ce *CEnv) evalInt(e *CExpr) *Term {
	v := ce.eval(e)
	if v.K != VScalar || v.T.sort != SInt {
		cfail("expression %s is not an integer", e)
	}
	return v.T
}

func boolVal(t *Term) Val { return scalarVal(t, types.Typ[types.Bool]) }
func intVal(t *Term) Val  { return scalarVal(t, types.Typ[types.Int]) }

// refOf: the Int term identifying a reference-like value.
func refOf(v Val) *Term {
	switch v.K {
	case VPtr:
		if len(v.Idx) == 1 {
			return v.Idx[0]
		}
		if len(v.Idx) == 0 {
			cfail("address of a global has no reference")
		}
	case VMap, VFunc:
		if v.T != nil {
			return v.T
		}
	case VIface:
		return v.T
	case VSlice:
		return v.Arr
	case VScalar:
		if v.T.sort == SInt {
			return v.T
		}
	}
	cfail("value has no reference (kind %d)", v.K)
	return nil
}

func (ce *CEnv) eval(e *CExpr) Val {
	switch e.Op {
	case "int":
		return intVal(IntLit(e.Int))
	case "str":
		return scalarVal(strCode(e.Str), types.Typ[types.String])
	case "ident":
		return ce.ident(e.Name)
	case "sel":
		// package-qualified identifier?
		if e.Args[0].Op == "ident" {
			if _, isVar := ce.vars[e.Args[0].Name]; !isVar {
				if p := ce.x.P.importedPkg(ce.pkg, e.Args[0].Name); p != nil {
					return ce.pkgMember(p, e.Name)
				}
			}
		}
		return ce.selField(ce.eval(e.Args[0]), e.Name, e)
	case "index":
		return ce.index(ce.eval(e.Args[0]), ce.eval(e.Args[1]), e)
	case "call":
		return ce.call(e)
	case "!":
		return boolVal(Not(ce.evalBool(e.Args[0])))
	case "neg":
		return intVal(Neg(ce.evalInt(e.Args[0])))
	case "&&":
		return boolVal(And(ce.evalBool(e.Args[0]), ce.evalBool(e.Args[1])))
	case "||":
		return boolVal(Or(ce.evalBool(e.Args[0]), ce.evalBool(e.Args[1])))
	case "==>":
		return boolVal(Implies(ce.evalBool(e.Args[0]), ce.evalBool(e.Args[1])))
	case "<==>":
		return boolVal(Eq(ce.evalBool(e.Args[0]), ce.evalBool(e.Args[1])))
	case "==", "!=":
		a, b := ce.eval(e.Args[0]), ce.eval(e.Args[1])
		t := ce.eqVals(a, b, e)
		if e.Op == "!=" {
			t = Not(t)
		}
		return boolVal(t)
	case "<", "<=", ">", ">=":
		a, b := ce.eval(e.Args[0]).T, ce.eval(e.Args[1]).T
		switch e.Op {
		case "<":
			return boolVal(Lt(a, b))
		case "<=":
			return boolVal(Le(a, b))
		case ">":
			return boolVal(Gt(a, b))
		}
		return boolVal(Ge(a, b))
	case "+", "-", "*", "/", "%":
		a, b := ce.eval(e.Args[0]).T, ce.eval(e.Args[1]).T
		switch e.Op {
		case "+":
			return intVal(Add(a, b))
		case "-":
			return intVal(Sub(a, b))
		case "*":
			return intVal(Mul(a, b))
		case "/":
			return intVal(GoDiv(a, b))
		}
		return intVal(GoMod(a, b))
	}
	cfail("cannot evaluate %s", e)
	return Val{}
}

func (ce *CEnv) eqVals(a, b Val, e *CExpr) *Term {
	// nil literal adapts to the other side
	if a.K == VOpaque && a.Typ == nil {
		a = nilLike(b)
	}
	if b.K == VOpaque && b.Typ == nil {
		b = nilLike(a)
	}
	if a.K == VPtr && b.K == VPtr && (len(a.Idx) != 1 || len(b.Idx) != 1) {
		cfail("comparison of interior pointers in %s", e)
	}
	if a.K != b.K {
		// allow error/int mixes
		ra, rb := refOf(a), refOf(b)
		return Eq(ra, rb)
	}
	return valEq(a, b)
}

func nilLike(v Val) Val {
	switch v.K {
	case VPtr:
		return Val{K: VPtr, Typ: v.Typ, Prefix: v.Prefix, Idx: []*Term{IntLit(0)}}
	case VMap:
		return Val{K: VMap, Typ: v.Typ, T: IntLit(0)}
	case VSlice:
		return Val{K: VSlice, Typ: v.Typ, Arr: IntLit(0), Off: IntLit(0), Len: IntLit(0)}
	case VIface:
		return Val{K: VIface, Typ: v.Typ, Tag: IntLit(0), T: IntLit(0)}
	case VFunc:
		return Val{K: VFunc, Typ: v.Typ, T: IntLit(0)}
	case VScalar:
		return scalarVal(IntLit(0), v.Typ)
	}
	return v
}

func (ce *CEnv) ident(name string) Val {
	if v, ok := ce.vars[name]; ok {
		return v
	}
	switch name {
	case "true":
		return boolVal(True())
	case "false":
		return boolVal(False())
	case "nil":
		return Val{K: VOpaque}
	}
	if sf := ce.x.P.specIn(ce.home, ce.pkg, name); sf != nil && len(sf.Params) == 0 {
		n := *ce
		if sp := ce.x.P.spkgs[sf.Pkg]; sp != nil {
			n.pkg = sp.Pkg
			n.home = sf.Pkg
		}
		return n.eval(sf.Body)
	}
	if ce.pkg != nil {
		if v, ok := ce.pkgMemberOK(ce.pkg, name); ok {
			return v
		}
	}
	cfail("unknown identifier %q", name)
	return Val{}
}

func (ce *CEnv) pkgMember(p *types.Package, name string) Val {
	v, ok := ce.pkgMemberOK(p, name)
	if !ok {
		cfail("package %s has no member %s usable in contracts", p.Name(), name)
	}
	return v
}

func (ce *CEnv) pkgMemberOK(p *types.Package, name string) (Val, bool) {
	obj := p.Scope().Lookup(name)
	if obj == nil {
		return Val{}, false
	}
	switch o := obj.(type) {
	case *types.Const:
		cv := o.Val()
		switch cv.Kind() {
		case constant.Int:
			n, _ := constant.Int64Val(cv)
			return scalarVal(IntLit(n), o.Type()), true
		case constant.String:
			return scalarVal(strCode(constant.StringVal(cv)), o.Type()), true
		case constant.Bool:
			return scalarVal(BoolLit(constant.BoolVal(cv)), o.Type()), true
		}
	case *types.Var:
		prefix := "global." + p.Name() + "." + name
		if gv, ok := ce.x.P.globalConst(prefix, o.Type()); ok {
			return gv, true
		}
		return loadPlace(ce.heap, Place{prefix, nil}, o.Type()), true
	}
	return Val{}, false
}

func (ce *CEnv) selField(v Val, name string, e *CExpr) Val {
	switch v.K {
	case VPtr:
		pt, ok := v.Typ.Underlying().(*types.Pointer)
		if !ok {
			cfail("selector .%s on non-pointer in %s", name, e)
		}
		s := structFields(pt.Elem())
		if s == nil {
			cfail("selector .%s on pointer to non-struct %v in %s", name, pt.Elem(), e)
		}
		for i := 0; i < s.NumFields(); i++ {
			if s.Field(i).Name() == name {
				return loadPlace(ce.heap, ptrPlace(v).field(name), s.Field(i).Type())
			}
		}
		cfail("type %v has no field %s (in %s)", pt.Elem(), name, e)
	case VStruct:
		s := structFields(v.Typ)
		for i := 0; i < s.NumFields(); i++ {
			if s.Field(i).Name() == name {
				return v.Fields[i]
			}
		}
		cfail("type %v has no field %s (in %s)", v.Typ, name, e)
	case VIface:
		// devirtualised interface: treat as pointer to the sole implementation
		if pv, ok := ce.x.P.devirtVal(v); ok {
			return ce.selField(pv, name, e)
		}
	}
	cfail("selector .%s on value of kind %d in %s", name, v.K, e)
	return Val{}
}

func (ce *CEnv) index(c, i Val, e *CExpr) Val {
	switch c.K {
	case VSlice:
		return loadPlace(ce.heap, elemPlace(c, i.T), sliceElemType(c.Typ))
	case VMap:
		_, vt := mapTypes(c.Typ)
		k := keyTerm(i)
		raw := loadPlace(ce.heap, mapValPlace(c, k), vt)
		return valIte(mapDom(ce.heap, c, k), raw, zeroVal(vt))
	case VStruct: // array value
		if n, ok := i.T.IntVal(); ok && int(n) < len(c.Fields) {
			return c.Fields[n]
		}
	}
	cfail("cannot index %s", e)
	return Val{}
}

func (ce *CEnv) quantBounds(e *CExpr) (string, *Term, *Term) {
	if len(e.Args) != 5 || e.Args[1].Op != "ident" {
		cfail("%s: expected (var, lo, hi, body)", e)
	}
	return e.Args[1].Name, ce.evalInt(e.Args[2]), ce.evalInt(e.Args[3])
}

var quantCounter int

func (ce *CEnv) call(e *CExpr) Val {
	fn := e.Args[0]
	if fn.Op == "sel" {
		// method-like call on a value: only a few pure getters are known
		recv := ce.eval(fn.Args[0])
		return ce.methodCall(recv, fn.Name, e)
	}
	if fn.Op != "ident" {
		cfail("cannot call %s", fn)
	}
	args := e.Args[1:]
	switch fn.Name {
	case "old":
		if ce.old == nil {
			cfail("old() used where no pre-state exists")
		}
		n := ce.withHeap(ce.old)
		n.alloc = ce.allocOld
		return n.eval(args[0])
	case "forall", "exists":
		v, lo, hi := ce.quantBounds(e)
		l, lok := lo.IntVal()
		h, hok := hi.IntVal()
		if lok && hok && h-l <= 64 {
			var parts []*Term
			for k := l; k < h; k++ {
				parts = append(parts, ce.bind(v, intVal(IntLit(k))).evalBool(args[3]))
			}
			if fn.Name == "forall" {
				return boolVal(And(parts...))
			}
			return boolVal(Or(parts...))
		}
		quantCounter++
		bv := Var(fmt.Sprintf("%s!q%d", v, quantCounter), SInt)
		body := ce.bind(v, intVal(bv)).evalBool(args[3])
		rng := And(Le(lo, bv), Lt(bv, hi))
		if fn.Name == "forall" {
			return boolVal(Forall(bv, Implies(rng, body)))
		}
		return boolVal(Exists(bv, And(rng, body)))
	case "all", "any":
		if len(args) != 2 || args[0].Op != "ident" {
			cfail("%s(var, body)", fn.Name)
		}
		quantCounter++
		bv := Var(fmt.Sprintf("%s!q%d", args[0].Name, quantCounter), SInt)
		body := ce.bind(args[0].Name, intVal(bv)).evalBool(args[1])
		if fn.Name == "all" {
			return boolVal(Forall(bv, body))
		}
		return boolVal(Exists(bv, body))
	case "cnt":
		v, lo, hi := ce.quantBounds(e)
		l, lok := lo.IntVal()
		h, hok := hi.IntVal()
		if !lok || !hok {
			cfail("cnt needs literal bounds (under a configuration): %s", e)
		}
		sum := IntLit(0)
		for k := l; k < h; k++ {
			sum = Add(sum, Ite(ce.bind(v, intVal(IntLit(k))).evalBool(args[3]), IntLit(1), IntLit(0)))
		}
		return intVal(sum)
	case "sum":
		v, lo, hi := ce.quantBounds(e)
		l, lok := lo.IntVal()
		h, hok := hi.IntVal()
		if !lok || !hok {
			cfail("sum needs literal bounds (under a configuration): %s", e)
		}
		sum := IntLit(0)
		for k := l; k < h; k++ {
			sum = Add(sum, ce.bind(v, intVal(IntLit(k))).evalInt(args[3]))
		}
		return intVal(sum)
	case "len":
		v := ce.eval(args[0])
		switch v.K {
		case VSlice:
			return intVal(v.Len)
		case VMap:
			return intVal(mapLen(ce.heap, v))
		case VScalar:
			return intVal(App("str.len", SInt, v.T))
		}
		cfail("len of %s", args[0])
	case "indom":
		m := ce.eval(args[0])
		if m.K != VMap {
			cfail("indom: not a map: %s", args[0])
		}
		return boolVal(mapDom(ce.heap, m, keyTerm(ce.eval(args[1]))))
	case "ite":
		c := ce.evalBool(args[0])
		a, b := ce.eval(args[1]), ce.eval(args[2])
		if a.K == VOpaque && a.Typ == nil {
			a = nilLike(b)
		}
		if b.K == VOpaque && b.Typ == nil {
			b = nilLike(a)
		}
		return valIte(c, a, b)
	case "ref":
		return intVal(refOf(ce.eval(args[0])))
	case "fresh":
		r := refOf(ce.eval(args[0]))
		return boolVal(And(Ge(r, ce.allocOld), Lt(r, ce.alloc)))
	case "allocated":
		r := refOf(ce.eval(args[0]))
		return boolVal(And(Le(IntLit(0), r), Lt(r, ce.alloc)))
	case "unchanged":
		res := True()
		for _, a := range args {
			nv := ce.eval(a)
			o := ce.withHeap(ce.old)
			o.alloc = ce.allocOld
			ov := o.eval(a)
			res = And(res, ce.eqVals(nv, ov, a))
		}
		return boolVal(res)
	case "held":
		// held(x.mu): ghost lock flag of a mutex field
		pl := ce.lvaluePlace(args[0])
		return boolVal(ce.heap.Get(pl.Prefix+"#held", len(pl.Idx), SBool).Select(pl.Idx))
	case "ghostnow":
		return intVal(ce.heap.Get("ghost.now", 0, SInt).Select(nil))
	case "ncalls":
		return intVal(ce.heap.Get("log#n", 0, SInt).Select(nil))
	case "callfn":
		i := ce.evalInt(args[0])
		return intVal(ce.heap.Get("log#fn", 1, SInt).Select([]*Term{i}))
	case "callrecv":
		i := ce.evalInt(args[0])
		return intVal(ce.heap.Get("log#recv", 1, SInt).Select([]*Term{i}))
	case "callarg":
		i := ce.evalInt(args[0])
		k, ok := ce.evalInt(args[1]).IntVal()
		if !ok {
			cfail("callarg index must be literal")
		}
		return intVal(ce.heap.Get(fmt.Sprintf("log#a%d", k), 1, SInt).Select([]*Term{i}))
	case "callargb":
		i := ce.evalInt(args[0])
		k, _ := ce.evalInt(args[1]).IntVal()
		return boolVal(ce.heap.Get(fmt.Sprintf("log#b%d", k), 1, SBool).Select([]*Term{i}))
	case "callres":
		i := ce.evalInt(args[0])
		k, _ := ce.evalInt(args[1]).IntVal()
		return intVal(ce.heap.Get(fmt.Sprintf("log#r%d", k), 1, SInt).Select([]*Term{i}))
	case "smhas", "smref", "smtag":
		pl := ce.lvaluePlace(args[0])
		k := refOf(ce.eval(args[1]))
		idx := append(append([]*Term{}, pl.Idx...), k)
		switch fn.Name {
		case "smhas":
			return boolVal(ce.heap.Get(pl.Prefix+"#smdom", len(idx), SBool).Select(idx))
		case "smref":
			return intVal(ce.heap.Get(pl.Prefix+"#smref", len(idx), SInt).Select(idx))
		}
		return intVal(ce.heap.Get(pl.Prefix+"#smtag", len(idx), SInt).Select(idx))
	case "fnid":
		if args[0].Op != "str" {
			cfail("fnid needs a string literal")
		}
		return intVal(strCode("fn:" + args[0].Str))
	case "typeis":
		v := ce.eval(args[0])
		if v.K != VIface || args[1].Op != "str" {
			cfail("typeis(iface, \"T\")")
		}
		return boolVal(Eq(v.Tag, IntLit(ce.x.P.typeTagByName(args[1].Str))))
	case "dyn":
		// dyn(ifaceValue, "*pkg.T"): the payload of an interface value seen as a pointer to T (meaningful where typeis holds)
		v := ce.eval(args[0])
		if v.K != VIface || args[1].Op != "str" || !strings.HasPrefix(args[1].Str, "*") {
			cfail("dyn(iface, \"*pkg.T\")")
		}
		nm := strings.TrimPrefix(args[1].Str, "*")
		k := strings.LastIndex(nm, ".")
		if k < 0 {
			cfail("dyn: type name must be package-qualified")
		}
		var obj types.Object
		for path, sp := range ce.x.P.spkgs {
			if strings.HasPrefix(path, modPath) && sp.Pkg.Name() == nm[:k] {
				if o := sp.Pkg.Scope().Lookup(nm[k+1:]); o != nil {
					obj = o
				}
			}
		}
		if obj == nil {
			cfail("dyn: unknown type %s", nm)
		}
		pt := types.NewPointer(obj.Type())
		return Val{K: VPtr, Typ: pt, Prefix: objPrefix(obj.Type()), Idx: []*Term{v.T}}
	case "errcode":
		return intVal(refOf(ce.eval(args[0])))
	case "abs":
		a := ce.evalInt(args[0])
		return intVal(Ite(Ge(a, IntLit(0)), a, Neg(a)))
	case "min":
		a, b := ce.evalInt(args[0]), ce.evalInt(args[1])
		return intVal(Ite(Le(a, b), a, b))
	case "max":
		a, b := ce.evalInt(args[0]), ce.evalInt(args[1])
		return intVal(Ite(Ge(a, b), a, b))
	case "setfield":
		v := ce.eval(args[0])
		if v.K != VStruct || args[1].Op != "str" {
			cfail("setfield(structValue, \"Field\", value)")
		}
		st := structFields(v.Typ)
		nv := Val{K: VStruct, Typ: v.Typ, Fields: append([]Val{}, v.Fields...)}
		for i := 0; i < st.NumFields(); i++ {
			if st.Field(i).Name() == args[1].Str {
				nv.Fields[i] = ce.eval(args[2])
				nv.Fields[i].Typ = st.Field(i).Type()
				return nv
			}
		}
		cfail("setfield: no field %s", args[1].Str)
	case "sameslice":
		a, b := ce.eval(args[0]), ce.eval(args[1])
		return boolVal(And(Eq(a.Arr, b.Arr), Eq(a.Off, b.Off), Eq(a.Len, b.Len)))
	case "inheap":
		// the term is evaluated in the current heap even inside old(): escape hatch not needed now
	}
	// spec function (macro)
	if sf := ce.x.P.specIn(ce.home, ce.pkg, fn.Name); sf != nil {
		if len(sf.Params) != len(args) {
			cfail("spec %s expects %d arguments, got %d", sf.Name, len(sf.Params), len(args))
		}
		if ce.depth > 40 {
			cfail("spec expansion too deep (recursive spec %s?)", sf.Name)
		}
		n := *ce
		n.depth++
		if sp := ce.x.P.spkgs[sf.Pkg]; sp != nil {
			n.pkg = sp.Pkg
			n.home = sf.Pkg
		}
		n.vars = make(map[string]Val, len(ce.vars)+len(args))
		for k, v := range ce.vars {
			n.vars[k] = v
		}
		for i, p := range sf.Params {
			n.vars[p] = ce.eval(args[i])
		}
		return n.eval(sf.Body)
	}
	cfail("unknown function %q in contract expression %s", fn.Name, e)
	return Val{}
}

func (ce *CEnv) methodCall(recv Val, name string, e *CExpr) Val {
	cfail("method calls are not available in contracts (%s); use a spec function", e)
	return Val{}
}

// lvaluePlace: the place denoted by an expression like x.f or x.f.g (no load of the last field).
func (ce *CEnv) lvaluePlace(e *CExpr) Place {
	switch e.Op {
	case "sel":
		base := e.Args[0]
		// package-level variable?
		if base.Op == "ident" {
			if _, isVar := ce.vars[base.Name]; !isVar {
				if p := ce.x.P.importedPkg(ce.pkg, base.Name); p != nil {
					return Place{"global." + p.Name() + "." + e.Name, nil}
				}
			}
		}
		bv := ce.eval(base)
		switch bv.K {
		case VPtr:
			return ptrPlace(bv).field(e.Name)
		case VIface:
			if pv, ok := ce.x.P.devirtVal(bv); ok {
				return ptrPlace(pv).field(e.Name)
			}
		}
		// struct value held in a place: recurse
		bp := ce.lvaluePlace(base)
		return bp.field(e.Name)
	case "index":
		c := ce.eval(e.Args[0])
		i := ce.eval(e.Args[1])
		switch c.K {
		case VSlice:
			return elemPlace(c, i.T)
		case VMap:
			return mapValPlace(c, keyTerm(i))
		}
	case "ident":
		if _, ok := ce.vars[e.Name]; !ok && ce.pkg != nil {
			if obj := ce.pkg.Scope().Lookup(e.Name); obj != nil {
				if _, isVar := obj.(*types.Var); isVar {
					return Place{"global." + ce.pkg.Name() + "." + e.Name, nil}
				}
			}
		}
		v := ce.eval(e)
		if v.K == VPtr {
			return ptrPlace(v)
		}
	}
	cfail("not an l-value: %s", e)
	return Place{}
}

// typeOfLvalue: Go type of the place denoted by e.
func (ce *CEnv) typeOfLvalue(e *CExpr) types.Type {
	switch e.Op {
	case "sel":
		base := e.Args[0]
		var st *types.Struct
		bt := ce.typeOfExpr(base)
		if bt == nil {
			cfail("cannot type %s", base)
		}
		if p, ok := bt.Underlying().(*types.Pointer); ok {
			bt = p.Elem()
		}
		if _, ok := bt.Underlying().(*types.Interface); ok {
			if dt := ce.x.P.devirtType(bt); dt != nil {
				bt = dt.Underlying().(*types.Pointer).Elem()
			}
		}
		st = structFields(bt)
		if st == nil {
			cfail("selector on non-struct in %s", e)
		}
		for i := 0; i < st.NumFields(); i++ {
			if st.Field(i).Name() == e.Name {
				return st.Field(i).Type()
			}
		}
	case "index":
		bt := ce.typeOfExpr(e.Args[0])
		switch u := bt.Underlying().(type) {
		case *types.Slice:
			return u.Elem()
		case *types.Map:
			return u.Elem()
		}
	case "ident":
		return ce.typeOfExpr(e)
	}
	cfail("cannot determine the type of %s", e)
	return nil
}

func (ce *CEnv) typeOfExpr(e *CExpr) types.Type {
	switch e.Op {
	case "ident":
		if v, ok := ce.vars[e.Name]; ok {
			return v.Typ
		}
		if ce.pkg != nil {
			if obj := ce.pkg.Scope().Lookup(e.Name); obj != nil {
				return obj.Type()
			}
		}
	case "sel", "index":
		if e.Op == "sel" && e.Args[0].Op == "ident" {
			if _, isVar := ce.vars[e.Args[0].Name]; !isVar {
				if p := ce.x.P.importedPkg(ce.pkg, e.Args[0].Name); p != nil {
					if obj := p.Scope().Lookup(e.Name); obj != nil {
						return obj.Type()
					}
				}
			}
		}
		return ce.typeOfLvalue(e)
	}
	v := ce.eval(e)
	return v.Typ
}

func describeVal(v Val) string {
	switch v.K {
	case VScalar:
		return v.T.String()
	case VPtr:
		var is []string
		for _, i := range v.Idx {
			is = append(is, i.String())
		}
		return "&" + v.Prefix + "[" + strings.Join(is, ",") + "]"
	}
	return fmt.Sprintf("<kind %d>", v.K)
}
