package main

// Replay of counter-models against the real code (seat_manager methods).
// The model's pre-state of the seat manager is rebuilt with struct literals in an in-package test
// (injected with go test -overlay, nothing is written into /repo), the real method is called with the
// model's arguments, and the real post-state and results are compared with the ones the model
// predicts. If they agree, the real code takes the state the solver said violates the clause: the
// counterexample is confirmed. If they differ the model came from an abstraction (or from a
// nondeterministic choice) and the violation is reported with no-failing-input-found.

import (
	"fmt"
	"go/types"
	"os"
	"os/exec"
	"path/filepath"
	"strconv"
	"strings"

	"golang.org/x/tools/go/ssa"
)

const smPkg = modPath + "/seat_manager"

func isSeatManagerMethod(fn *ssa.Function) bool {
	if fn == nil || fn.Pkg == nil || fn.Pkg.Pkg.Path() != smPkg || fn.Signature.Recv() == nil {
		return false
	}
	return strings.Contains(fn.Signature.Recv().Type().String(), "seatManager")
}

// smWatch: terms describing the seat manager (pre or post) for M seats.
func smWatch(x *Exec, h *Heap, recv Val, M int, tag string) []WatchTerm {
	var ws []WatchTerm
	ce := &CEnv{x: x, vars: map[string]Val{"sm": recv}, heap: h, old: h, alloc: x.alloc0, allocOld: x.alloc0}
	if x.fn != nil && x.fn.Pkg != nil {
		ce.pkg = x.fn.Pkg.Pkg
	}
	add := func(name, expr string) {
		defer func() { recover() }()
		e, err := parseCExpr(expr)
		if err != nil {
			return
		}
		v := ce.eval(e)
		if v.K == VPtr && len(v.Idx) == 1 {
			ws = append(ws, WatchTerm{tag + name, v.Idx[0]})
		} else if v.K == VScalar {
			ws = append(ws, WatchTerm{tag + name, v.T})
		}
	}
	for _, f := range []string{"DealerSeatID", "SBSeatID", "BBSeatID", "Rule", "IsInit"} {
		add(f, "sm."+f)
	}
	for s := 0; s < M; s++ {
		add(fmt.Sprintf("seat%d", s), fmt.Sprintf("sm.SeatData[%d]", s))
		for _, f := range []string{"ID", "IsIn", "IsBetweenDealerBB", "HasChips"} {
			add(fmt.Sprintf("seat%d.%s", s, f), fmt.Sprintf("sm.SeatData[%d].%s", s, f))
		}
	}
	return ws
}

func goString(code string) string {
	n, err := strconv.ParseInt(strings.Trim(strings.ReplaceAll(code, " ", ""), "()"), 10, 64)
	if err != nil {
		// negative literal "(- 5)"
		c := strings.Fields(strings.Trim(code, "()"))
		if len(c) == 2 && c[0] == "-" {
			v, _ := strconv.ParseInt(c[1], 10, 64)
			n = -v
		}
	}
	if s, ok := strByCode[n]; ok {
		return strconv.Quote(s)
	}
	return strconv.Quote(fmt.Sprintf("p%d", n))
}

func goInt(code string) string {
	c := strings.Fields(strings.Trim(code, "()"))
	if len(c) == 2 && c[0] == "-" {
		return "-" + c[1]
	}
	return strings.TrimSpace(code)
}

func (P *Prog) tryReplay(o *Obligation, dir string) (string, bool, string) {
	fn := o.fn
	if !isSeatManagerMethod(fn) || o.M == 0 {
		return "", false, "no replay driver for this function (the model is attached above)"
	}
	vals := map[string]string{}
	for _, kv := range parseValues(o) {
		vals[kv[0]] = kv[1]
	}
	M := o.M
	smLit := func(tag string) string {
		var sb strings.Builder
		fmt.Fprintf(&sb, "&seatManager{MaxSeat: %d, DealerSeatID: %s, SBSeatID: %s, BBSeatID: %s, Rule: %s, IsInit: %s, SeatData: map[int]*SeatPlayer{",
			M, goInt(vals[tag+"DealerSeatID"]), goInt(vals[tag+"SBSeatID"]), goInt(vals[tag+"BBSeatID"]), goString(vals[tag+"Rule"]), vals[tag+"IsInit"])
		for s := 0; s < M; s++ {
			ref := vals[fmt.Sprintf("%sseat%d", tag, s)]
			if ref == "" || ref == "0" {
				fmt.Fprintf(&sb, "%d: nil, ", s)
				continue
			}
			fmt.Fprintf(&sb, "%d: {ID: %s, IsIn: %s, IsBetweenDealerBB: %s, HasChips: %s}, ", s, goString(vals[fmt.Sprintf("%sseat%d.ID", tag, s)]),
				vals[fmt.Sprintf("%sseat%d.IsIn", tag, s)], vals[fmt.Sprintf("%sseat%d.IsBetweenDealerBB", tag, s)], vals[fmt.Sprintf("%sseat%d.HasChips", tag, s)])
		}
		sb.WriteString("}}")
		return sb.String()
	}
	// arguments
	var args []string
	for _, p := range fn.Params[1:] {
		switch {
		case isIntT(p.Type()):
			args = append(args, goInt(vals[p.Name()+"#0"]))
		case isBoolT(p.Type()):
			args = append(args, vals[p.Name()+"#0"])
		case isStringT(p.Type()):
			args = append(args, goString(vals[p.Name()+"#0"]))
		default:
			if sl, ok := p.Type().Underlying().(*types.Slice); ok && isStringT(sl.Elem()) {
				n, _ := strconv.Atoi(goInt(vals[p.Name()+"#2"]))
				if n < 0 || n > 10 {
					return "", false, "model has a slice argument of unreasonable length"
				}
				var es []string
				for i := 0; i < n; i++ {
					es = append(es, goString(vals[fmt.Sprintf("pre:%s[%d]#0", p.Name(), i)]))
				}
				args = append(args, "[]string{"+strings.Join(es, ", ")+"}")
				continue
			}
			return "", false, "no replay driver for an argument of type " + p.Type().String()
		}
	}
	nres := fn.Signature.Results().Len()
	var lhs []string
	for i := 0; i < nres; i++ {
		lhs = append(lhs, fmt.Sprintf("r%d", i))
	}
	call := fmt.Sprintf("sm.%s(%s)", fn.Name(), strings.Join(args, ", "))
	if nres > 0 {
		call = strings.Join(lhs, ", ") + " := " + call
	}
	var resFmt []string
	for i := 0; i < nres; i++ {
		t := fn.Signature.Results().At(i).Type()
		if isErrorType(t) {
			resFmt = append(resFmt, fmt.Sprintf("fmt.Sprint(r%d != nil)", i))
		} else {
			resFmt = append(resFmt, fmt.Sprintf("fmt.Sprint(r%d)", i))
		}
	}
	var expRes []string
	for i := 0; i < nres; i++ {
		t := fn.Signature.Results().At(i).Type()
		v := vals[fmt.Sprintf("result%d#0", i)]
		if isErrorType(t) {
			expRes = append(expRes, strconv.Quote(fmt.Sprint(goInt(v) != "0")))
		} else {
			expRes = append(expRes, strconv.Quote(goInt(v)))
		}
	}
	name := unsafeName.ReplaceAllString(o.Name, "_")
	testName := "TestReplay_" + strings.NewReplacer(".", "_", "@", "_", "=", "_", "#", "_", "-", "_", ",", "_", "%", "_").Replace(name)
	src := fmt.Sprintf(`// path: seat_manager/zz_replay_test.go
// Replay of the counter-model of obligation %s
// clause: %s
package seat_manager

import (
	"fmt"
	"reflect"
	"testing"
)

func dumpSM(sm *seatManager) string {
	s := fmt.Sprintf("D=%%d SB=%%d BB=%%d init=%%v |", sm.DealerSeatID, sm.SBSeatID, sm.BBSeatID, sm.IsInit)
	for i := 0; i < sm.MaxSeat; i++ {
		if p := sm.SeatData[i]; p == nil {
			s += fmt.Sprintf(" %%d:-", i)
		} else {
			s += fmt.Sprintf(" %%d:%%s/in=%%v/wait=%%v/chips=%%v", i, p.ID, p.IsIn, p.IsBetweenDealerBB, p.HasChips)
		}
	}
	return s
}

func %s(t *testing.T) {
	sm := %s
	predicted := %s
	t.Logf("pre-state : %%s", dumpSM(sm))
	%s
	got := []string{%s}
	want := []string{%s}
	t.Logf("post-state: %%s", dumpSM(sm))
	t.Logf("predicted : %%s", dumpSM(predicted))
	t.Logf("results   : %%v (model predicted %%v)", got, want)
	if dumpSM(sm) == dumpSM(predicted) && reflect.DeepEqual(got, want) {
		t.Errorf("COUNTEREXAMPLE CONFIRMED: the real code reaches the state that violates the clause")
	} else {
		t.Logf("the real code behaves differently from the model on this input")
	}
}
`, o.Name, o.Note, testName, smLit("pre."), smLit("post."), call, strings.Join(resFmt, ", "), strings.Join(expRes, ", "))
	os.MkdirAll(dir, 0o755)
	file := filepath.Join(dir, name+"_test.go")
	if err := os.WriteFile(file, []byte(src), 0o644); err != nil {
		return "", false, err.Error()
	}
	ov := filepath.Join(dir, name+".overlay.json")
	os.WriteFile(ov, []byte(fmt.Sprintf(`{"Replace":{"%s/seat_manager/zz_replay_test.go":"%s"}}`, P.repo, file)), 0o644)
	cmd := exec.Command("go", "test", "-overlay", ov, "-vet=off", "-count=1", "-timeout", "60s", "-run", testName, "-v", "./seat_manager/")
	cmd.Dir = P.repo
	cmd.Env = append(os.Environ(), "GOFLAGS=-mod=mod", "GOPROXY=off", "GOSUMDB=off", "GOTOOLCHAIN=local")
	out, _ := cmd.CombinedOutput()
	os.Remove(ov)
	txt := string(out)
	keep := ""
	for _, l := range strings.Split(txt, "\n") {
		if strings.Contains(l, "zz_replay_test.go") || strings.HasPrefix(l, "---") || strings.HasPrefix(l, "FAIL") || strings.HasPrefix(l, "ok") {
			keep += l + "\n"
		}
	}
	confirmed := strings.Contains(txt, "COUNTEREXAMPLE CONFIRMED")
	msg := "replayed with " + file + " (go test -overlay):\n" + keep
	return file, confirmed, msg
}

// runCanary runs a canary test (a Go test file whose first line is "// path: <rel path in the repo>")
// against the repository with go test -overlay and reports whether the documented defect still shows.
func runCanary(repo, file string) string {
	b, err := os.ReadFile(file)
	if err != nil {
		return "canary file missing"
	}
	first := strings.SplitN(string(b), "\n", 2)[0]
	rel := strings.TrimSpace(strings.TrimPrefix(strings.TrimSpace(strings.TrimPrefix(first, "//")), "path:"))
	if rel == "" || strings.Contains(rel, " ") {
		return "canary file has no path line"
	}
	ov, err := os.CreateTemp("", "canary*.json")
	if err != nil {
		return err.Error()
	}
	fmt.Fprintf(ov, `{"Replace":{"%s/%s":"%s"}}`, repo, rel, file)
	ov.Close()
	defer os.Remove(ov.Name())
	cmd := exec.Command("go", "test", "-overlay", ov.Name(), "-vet=off", "-count=1", "-timeout", "120s", "-run", "TestCanary", "./"+filepath.Dir(rel)+"/")
	cmd.Dir = repo
	cmd.Env = append(os.Environ(), "GOFLAGS=-mod=mod", "GOPROXY=off", "GOSUMDB=off", "GOTOOLCHAIN=local")
	out, _ := cmd.CombinedOutput()
	txt := string(out)
	switch {
	case strings.Contains(txt, "--- FAIL: TestCanary"):
		for _, l := range strings.Split(txt, "\n") {
			if strings.Contains(l, "_test.go:") {
				return "fails on the real code (defect reproduced): " + strings.TrimSpace(l)
			}
		}
		return "fails on the real code (defect reproduced)"
	case strings.Contains(txt, "\nok ") || strings.HasPrefix(txt, "ok "):
		return "passes (the documented history no longer shows the defect)"
	}
	return "could not be run: " + truncate(txt, 300)
}
