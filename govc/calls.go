package main

import (
	"fmt"
	"go/types"
	"sort"
	"strings"

	"golang.org/x/tools/go/ssa"
)

const maxInlineDepth = 8

func tupleOf(vs []Val) Val {
	if len(vs) == 1 {
		return vs[0]
	}
	return Val{K: VTuple, Fields: vs}
}

func (x *Exec) call(st *State, site ssa.Instruction, c *ssa.CallCommon) Val {
	if b, ok := c.Value.(*ssa.Builtin); ok {
		return x.builtin(st, site, b, c)
	}
	var args []Val
	var fn *ssa.Function
	var bind []Val
	if c.IsInvoke() {
		recv := x.get(st, c.Value)
		for _, a := range c.Args {
			args = append(args, x.get(st, a))
		}
		if dt := x.P.devirtType(c.Value.Type()); dt != nil && !x.P.isOpaqueIface(c.Value.Type()) {
			m := x.P.prog.LookupMethod(dt, c.Method.Pkg(), c.Method.Name())
			if m == nil {
				unsupported("devirtualised method %s not found on %v", c.Method.Name(), dt)
			}
			x.trust(fmt.Sprintf("dynamic type of every %s value is %s (sole implementation in the module)", typeKey(c.Value.Type()), typeKey(dt)))
			rv := Val{K: VPtr, Typ: dt, Prefix: objPrefix(dt.Underlying().(*types.Pointer).Elem()), Idx: []*Term{recv.T}}
			fn = m
			args = append([]Val{rv}, args...)
		} else {
			// open interface: logged external call
			name := typeKey(c.Value.Type()) + "." + c.Method.Name()
			return x.externalCall(st, name, recv, args, c.Signature().Results())
		}
	} else {
		for _, a := range c.Args {
			args = append(args, x.get(st, a))
		}
		if sf := c.StaticCallee(); sf != nil {
			fn = sf
			if mc, ok := c.Value.(*ssa.MakeClosure); ok {
				for _, b := range mc.Bindings {
					bind = append(bind, x.get(st, b))
				}
			}
		} else {
			fv := x.get(st, c.Value)
			if fv.K == VFunc && fv.Fn != nil {
				fn = fv.Fn
				bind = fv.Bind
			} else {
				// unknown function value (callback field)
				name := "callback:" + calleeLabel(c.Value)
				return x.externalCall(st, name, fv, args, c.Signature().Results())
			}
		}
	}
	return x.callFunc(st, site, fn, args, bind)
}

func calleeLabel(v ssa.Value) string {
	// for callbacks loaded from a field: name of that field
	if u, ok := v.(*ssa.UnOp); ok {
		if fa, ok := u.X.(*ssa.FieldAddr); ok {
			st := structFields(fa.X.Type().Underlying().(*types.Pointer).Elem())
			return st.Field(fa.Field).Name()
		}
	}
	if p, ok := v.(*ssa.Parameter); ok {
		return p.Name()
	}
	if f, ok := v.(*ssa.FreeVar); ok {
		return f.Name()
	}
	return v.Name()
}

func (x *Exec) callFunc(st *State, site ssa.Instruction, fn *ssa.Function, args []Val, bind []Val) Val {
	if isIntrinsic(fn) {
		return x.intrinsic(st, site, fn, args)
	}
	if fn.String() == "(*"+modPath+".tableEngine).delay" {
		return x.delayModel(st, site, args)
	}
	x.curBind = bind
	if c := x.P.contracts[fn]; c != nil && !c.Inline && fn != x.fn {
		return x.applyContract(st, site, fn, c, args)
	}
	if c := x.P.contracts[fn]; c != nil && !c.Inline && fn == x.fn {
		// recursion into the function under verification: use its contract
		return x.applyContract(st, site, fn, c, args)
	}
	if len(fn.Blocks) == 0 {
		// external function without a model
		x.trust("external function " + fn.String() + " treated as having no effect on modelled state")
		return x.externalCall(st, fn.String(), Val{K: VOpaque}, args, fn.Signature.Results())
	}
	return x.inlineCall(st, fn, args, bind)
}

func (x *Exec) inlineCall(st *State, fn *ssa.Function, args []Val, bind []Val) Val {
	if x.depth >= maxInlineDepth {
		unsupported("inlining depth exceeded at %s (give it a contract)", shortFuncName(fn))
	}
	for _, f := range x.curFn {
		if f == fn && x.depth > 0 {
			unsupported("recursive inlining of %s", shortFuncName(fn))
		}
	}
	x.depth++
	defer func() { x.depth-- }()
	saveEnv, saveDefers, savePc := st.env, st.defers, st.pc
	cs := &State{pc: st.pc, heap: st.heap, alloc: st.alloc, env: map[ssa.Value]Val{}}
	if len(args) != len(fn.Params) {
		unsupported("argument count mismatch calling %s", shortFuncName(fn))
	}
	for i, p := range fn.Params {
		cs.env[p] = args[i]
	}
	if len(bind) != len(fn.FreeVars) {
		unsupported("closure %s called without its bindings", shortFuncName(fn))
	}
	for i, fv := range fn.FreeVars {
		cs.env[fv] = bind[i]
	}
	rs, results := x.runBody(fn, cs)
	st.heap = rs.heap
	st.alloc = rs.alloc
	st.env = saveEnv
	st.defers = saveDefers
	if rs.pc.IsFalse() {
		st.pc = False()
	} else {
		st.pc = savePc
	}
	return tupleOf(results)
}

// ---------- modular call ----------

func (x *Exec) contractEnv(st *State, fn *ssa.Function, args []Val, old *Heap, allocOld *Term) *CEnv {
	ce := &CEnv{x: x, vars: map[string]Val{}, heap: st.heap, old: old, alloc: st.alloc, allocOld: allocOld}
	if fn.Pkg != nil {
		ce.pkg = fn.Pkg.Pkg
	}
	if c := x.P.contracts[fn]; c != nil {
		ce.home = c.Pkg
	}
	for i, p := range fn.Params {
		if i < len(args) {
			ce.vars[p.Name()] = args[i]
		}
	}
	// closures: free variables are named in the contract like parameters (captured variables are
	// cells, so *name reads the current value; for convenience a by-value binding is exposed as-is)
	for i, fv := range fn.FreeVars {
		if i < len(x.curBind) {
			ce.vars[fv.Name()] = x.derefCell(st, x.curBind[i])
		}
	}
	return ce
}

// derefCell: a captured variable is a pointer to a cell; contracts see the value stored in it.
func (x *Exec) derefCell(st *State, v Val) Val {
	if v.K == VPtr && strings.HasPrefix(v.Prefix, "cell.") {
		pt := v.Typ.Underlying().(*types.Pointer)
		return loadPlace(st.heap, ptrPlace(v), pt.Elem())
	}
	return v
}

// delayModel: (*tableEngine).delay(interval, fn) waits and then runs fn at most once before
// returning (the time-bank task may be cancelled). WaitGroup and timer are not modelled.
func (x *Exec) delayModel(st *State, site ssa.Instruction, args []Val) Val {
	x.trust("(*tableEngine).delay runs its handler at most once, synchronously, before returning (WaitGroup + time bank are outside the subset)")
	fnv := args[2]
	errT := types.Universe.Lookup("error").Type()
	var alts []FuncAlt
	if fnv.K == VFunc && fnv.Fn != nil {
		alts = []FuncAlt{{True(), fnv.Fn, fnv.Bind}}
	} else if fnv.K == VFunc && len(fnv.Alts) > 0 {
		alts = fnv.Alts
	} else {
		unsupported("delay with a handler that is not a known closure")
	}
	run := FreshVar("delay.runs", SBool)
	res := scalarVal(IntLit(0), errT)
	for _, alt := range alts {
		s2 := st.clone()
		s2.pc = And(st.pc, run, alt.Cond)
		if s2.pc.IsFalse() {
			continue
		}
		r := x.callFunc(s2, site, alt.Fn, nil, alt.Bind)
		s2.pc = And(st.pc, run, alt.Cond)
		m := mergeStates(s2.pc, s2, st)
		m.pc = st.pc
		st.heap, st.alloc = m.heap, m.alloc
		res = valIte(And(run, alt.Cond), r, res)
	}
	return res
}

func (x *Exec) bindConfig(ce *CEnv, c *Contract) {
	for _, sp := range c.Splits {
		ce.vars[sp.Var] = ce.eval(sp.LHS)
	}
	if c.Config == nil {
		return
	}
	// the configuration variable takes the value of the first binding's left-hand side
	b := c.Config.Bindings[0]
	v := ce.eval(b.LHS)
	ce.vars[c.Config.Var] = v
}

func (x *Exec) applyContract(st *State, site ssa.Instruction, fn *ssa.Function, c *Contract, args []Val) Val {
	name := shortFuncName(fn)
	ce := x.contractEnv(st, fn, args, nil, nil)
	x.bindConfig(ce, c)
	for _, l := range c.Lets {
		ce.vars[l.Name] = ce.eval(l.Expr)
	}
	// implicit: pointer receiver non-nil
	if fn.Signature.Recv() != nil && len(args) > 0 && args[0].K == VPtr && len(args[0].Idx) == 1 {
		x.safety(st, site, "nil", Neq(args[0].Idx[0], IntLit(0)))
	}
	x.callN[name]++
	// caller-side hints: "assert at call <callee> : expr" over the callee's parameter names
	if x.contract != nil {
		for ai, a := range x.contract.Asserts {
			if strings.HasPrefix(a.Anchor, "call ") && strings.HasSuffix(name, strings.TrimSpace(strings.TrimPrefix(a.Anchor, "call "))) {
				lbl := a.Clause.Label
				if lbl == "" {
					lbl = fmt.Sprint(ai)
				}
				g := x.evalClause(ce, a.Clause, name)
				x.oblige(st, "assert", fmt.Sprintf("%s#%d.%s", name, x.callN[name], lbl), g, "hint before call to "+name+": "+a.Clause.Text)
				x.assume(st, g)
			}
		}
	}
	for i, r := range c.Requires {
		lbl := r.Label
		if lbl == "" {
			lbl = fmt.Sprint(i)
		}
		g := x.evalClause(ce, r, name)
		x.oblige(st, "callpre", fmt.Sprintf("%s#%d.%s", name, x.callN[name], lbl), g, "precondition of "+name+": "+r.Text)
		x.assume(st, x.dropKnownConjuncts(True(), g))
	}
	if c.Logged {
		// the call itself is recorded (by the caller, before the callee's own effects): postconditions of the
		// caller can then say that this function was called, with which receiver and arguments
		recv := Val{K: VOpaque}
		la := args
		if fn.Signature.Recv() != nil && len(args) > 0 {
			recv, la = args[0], args[1:]
		}
		x.logAppend(st, name, recv, la)
	}
	pre := st.heap.Clone()
	allocPre := st.alloc
	// havoc the frame
	x.havocModifies(st, ce, c, name)
	// allocation by the callee
	eff := &effects{fams: map[string]bool{}}
	x.P.funcEffects(fn, eff, map[*ssa.Function]bool{})
	if eff.allocs || c.Allocates {
		na := FreshVar("alloc", SInt)
		x.assumeGlobal(Ge(na, st.alloc))
		st.alloc = na
	}
	// results
	var results []Val
	res := fn.Signature.Results()
	post := x.contractEnv(st, fn, args, pre, allocPre)
	for k, v := range ce.vars {
		if _, ok := post.vars[k]; !ok {
			post.vars[k] = v // lets and config variable
		}
	}
	for i := 0; i < res.Len(); i++ {
		rv := freshVal(res.At(i).Type(), fmt.Sprintf("%s.r%d", fn.Name(), i))
		x.noteLoaded(st, rv)
		results = append(results, rv)
		if i < len(c.Returns) {
			post.vars[c.Returns[i]] = rv
		}
		post.vars[fmt.Sprintf("result%d", i)] = rv
		if i == 0 {
			post.vars["result"] = rv
		}
	}
	for i, e := range c.Ensures {
		g := x.evalClause(post, e, name)
		lbl := e.Label
		if lbl == "" {
			lbl = fmt.Sprint(i)
		}
		// a clause under a recorded finding is only available outside the finding's class
		for _, f := range x.P.findingsFor(name) {
			if f.Label == lbl {
				if ex, err := parseCExpr(f.Except); err == nil {
					g = Implies(Not(x.evalClause(post, &Clause{Expr: ex, Text: f.Except}, name)), g)
				}
			}
		}
		x.assume(st, g)
	}
	if c.Trusted != "" {
		x.trust("trusted contract of " + name + ": " + c.Trusted)
	}
	if c.Partial != "" {
		x.trust("contract of " + name + " is only partly discharged (" + c.Partial + "); beyond that it is assumed here")
	}
	return tupleOf(results)
}

func (x *Exec) evalClause(ce *CEnv, cl *Clause, fname string) (t *Term) {
	defer func() {
		if r := recover(); r != nil {
			if e, ok := r.(CEvalError); ok {
				panic(UnsupportedError{fmt.Sprintf("contract of %s, clause %q (line %d): %s", fname, cl.Text, cl.Line, e.msg)})
			}
			panic(r)
		}
	}()
	return ce.evalBool(cl.Expr)
}

// havocModifies replaces every location named in the modifies clause by an unknown value.
// Forms:   x.f            one field of one object (all families of that field's type)
//
//	x.f[*]         all entries of a map or all elements of a slice held in x.f
//	x.f[k]         one map entry / slice element
//	forall(i, lo, hi, loc)   with literal bounds
//	family("T.f")  a whole family (every object)
//	log            the ghost call log
func (x *Exec) havocModifies(st *State, ce *CEnv, c *Contract, fname string) {
	defer func() {
		if r := recover(); r != nil {
			if e, ok := r.(CEvalError); ok {
				panic(UnsupportedError{fmt.Sprintf("modifies clause of %s: %s", fname, e.msg)})
			}
			panic(r)
		}
	}()
	for _, m := range c.Modifies {
		x.havocLoc(st, ce, m.Expr)
	}
}

func (x *Exec) havocLoc(st *State, ce *CEnv, e *CExpr) {
	for _, hl := range x.resolveLoc(ce, e) {
		if hl.fam == "log#n" {
			old := st.heap.Get("log#n", 0, SInt).Select(nil)
			hl.apply(st.heap)
			x.assume(st, Ge(st.heap.Get("log#n", 0, SInt).Select(nil), old))
			continue
		}
		hl.apply(st.heap)
	}
}

// a havocable location: family + either one index tuple, a whole row (first index), or everything
type hloc struct {
	fam        string
	sort       Sort
	ar         int
	idx        []*Term // full index (len == ar) or row prefix (len == 1 < ar) or nil (whole family)
	appendFrom *Term   // log families: only entries at positions >= appendFrom may change
	guard      *Term   // the location is modifiable only when guard holds (cond ==> loc)
}

func (l hloc) apply(h *Heap) {
	f := h.Get(l.fam, l.ar, l.sort)
	switch {
	case l.appendFrom != nil:
		h.Set(l.fam, f.Overlay(freshBase(l.fam+"!app", l.ar, l.sort), l.appendFrom))
	case l.idx == nil:
		h.Set(l.fam, freshBase(l.fam+"!hv", l.ar, l.sort))
	case len(l.idx) == l.ar:
		nv := FreshVar(l.fam+"!v", l.sort)
		if l.guard != nil {
			nv = Ite(l.guard, nv, f.Select(l.idx))
		}
		h.Set(l.fam, f.Store(l.idx, nv))
	case len(l.idx) == 1 && l.ar == 2:
		fb := freshBase(l.fam+"!row", l.ar, l.sort)
		h.Set(l.fam, f.RowCopy(l.idx[0], fb, l.idx[0]))
	default:
		panic("bad hloc")
	}
}

func (x *Exec) resolveLoc(ce *CEnv, e *CExpr) []hloc {
	var out []hloc
	addPlace := func(p Place, t types.Type) {
		var fs []famRef
		placeFamilies(p.Prefix, t, &fs)
		for _, f := range fs {
			out = append(out, hloc{fam: f.name, sort: f.sort, ar: len(p.Idx), idx: p.Idx})
		}
	}
	switch {
	case e.Op == "==>":
		g := ce.evalBool(e.Args[0])
		for _, hl := range x.resolveLoc(ce, e.Args[1]) {
			if len(hl.idx) != hl.ar || hl.appendFrom != nil {
				cfail("conditional modifies needs single locations: %s", e)
			}
			if hl.guard != nil {
				hl.guard = And(g, hl.guard)
			} else {
				hl.guard = g
			}
			out = append(out, hl)
		}
		return out
	case e.Op == "ident" && e.Name == "log":
		out = append(out, hloc{fam: "log#n", sort: SInt, ar: 0, idx: []*Term{}})
		var names []string
		for n := range famReg {
			if strings.HasPrefix(n, "log#") && n != "log#n" {
				names = append(names, n)
			}
		}
		sort.Strings(names)
		n0 := ce.heap.Get("log#n", 0, SInt).Select(nil)
		for _, n := range names {
			out = append(out, hloc{fam: n, sort: famReg[n].sort, ar: famReg[n].arity, appendFrom: n0})
		}
		return out
	case e.Op == "call" && e.Args[0].Op == "ident" && e.Args[0].Name == "forall":
		v, lo, hi := ce.quantBounds(e)
		l, lok := lo.IntVal()
		h, hok := hi.IntVal()
		if !lok || !hok {
			cfail("modifies forall needs literal bounds: %s", e)
		}
		for k := l; k < h; k++ {
			out = append(out, x.resolveLoc(ce.bind(v, intVal(IntLit(k))), e.Args[4])...)
		}
		return out
	case e.Op == "call" && e.Args[0].Op == "ident" && e.Args[0].Name == "family":
		if e.Args[1].Op != "str" {
			cfail("family(\"name\")")
		}
		fi, ok := famReg[e.Args[1].Str]
		if !ok {
			// family not yet used: nothing to havoc (it will be created unconstrained)
			return nil
		}
		return []hloc{{fam: e.Args[1].Str, sort: fi.sort, ar: fi.arity}}
	case e.Op == "call" && e.Args[0].Op == "ident" && e.Args[0].Name == "held":
		pl := ce.lvaluePlace(e.Args[1])
		return []hloc{{fam: pl.Prefix + "#held", sort: SBool, ar: len(pl.Idx), idx: pl.Idx}}
	case e.Op == "index" && e.Args[1].Op == "ident" && e.Args[1].Name == "all":
		// x.f[all]: every entry of the map / every element of the slice
		c := ce.eval(e.Args[0])
		switch c.K {
		case VMap:
			pre := mapKeyPrefix(c.Typ)
			_, vt := mapTypes(c.Typ)
			out = append(out, hloc{fam: pre + "#dom", sort: SBool, ar: 2, idx: []*Term{c.T}})
			out = append(out, hloc{fam: pre + "#len", sort: SInt, ar: 1, idx: []*Term{c.T}})
			var fs []famRef
			placeFamilies(pre+"#val", vt, &fs)
			for _, f := range fs {
				out = append(out, hloc{fam: f.name, sort: f.sort, ar: 2, idx: []*Term{c.T}})
			}
			return out
		case VSlice:
			et := sliceElemType(c.Typ)
			var fs []famRef
			placeFamilies("elem."+typeKey(et), et, &fs)
			for _, f := range fs {
				out = append(out, hloc{fam: f.name, sort: f.sort, ar: 2, idx: []*Term{c.Arr}})
			}
			return out
		}
		cfail("[all] on a value that is neither map nor slice: %s", e)
	}
	p := ce.lvaluePlace(e)
	t := ce.typeOfLvalue(e)
	if n, ok := t.(*types.Named); ok && n.Obj().Pkg() != nil && n.Obj().Pkg().Path() == "sync" && n.Obj().Name() == "Map" {
		for _, sfx := range []struct {
			s string
			t Sort
		}{{"#smdom", SBool}, {"#smtag", SInt}, {"#smref", SInt}} {
			if len(p.Idx) == 1 {
				out = append(out, hloc{fam: p.Prefix + sfx.s, sort: sfx.t, ar: 2, idx: p.Idx})
			} else {
				out = append(out, hloc{fam: p.Prefix + sfx.s, sort: sfx.t, ar: len(p.Idx) + 1})
			}
		}
		return out
	}
	addPlace(p, t)
	return out
}

// ---------- external (logged) calls ----------

func flatten(v Val, out *[]*Term) {
	switch v.K {
	case VScalar:
		*out = append(*out, v.T)
	case VPtr:
		if len(v.Idx) == 1 {
			*out = append(*out, v.Idx[0])
		} else {
			*out = append(*out, IntLit(-7))
		}
	case VMap:
		*out = append(*out, v.T)
	case VFunc:
		if v.T != nil {
			*out = append(*out, v.T)
		} else {
			*out = append(*out, strCode("func:"+v.Fn.String()))
		}
	case VSlice:
		*out = append(*out, v.Arr, v.Off, v.Len)
	case VIface:
		*out = append(*out, v.Tag, v.T)
	case VStruct, VTuple:
		for _, f := range v.Fields {
			flatten(f, out)
		}
	}
}

// logAppend appends one entry (callee name, receiver, flattened arguments) to the ghost call log and
// returns the position it was written at.
func (x *Exec) logAppend(st *State, name string, recv Val, args []Val) *Term {
	h := st.heap
	nfam := h.Get("log#n", 0, SInt)
	n := nfam.Select(nil)
	h.Set("log#fn", h.Get("log#fn", 1, SInt).Store([]*Term{n}, strCode(name)))
	var rt []*Term
	flatten(recv, &rt)
	if len(rt) > 0 {
		h.Set("log#recv", h.Get("log#recv", 1, SInt).Store([]*Term{n}, rt[len(rt)-1]))
	}
	var flat []*Term
	for _, a := range args {
		flatten(a, &flat)
	}
	ai, bi := 0, 0
	for _, t := range flat {
		switch t.sort {
		case SInt:
			f := fmt.Sprintf("log#a%d", ai)
			h.Set(f, h.Get(f, 1, SInt).Store([]*Term{n}, t))
			ai++
		case SBool:
			f := fmt.Sprintf("log#b%d", bi)
			h.Set(f, h.Get(f, 1, SBool).Store([]*Term{n}, t))
			bi++
		}
	}
	h.Set("log#n", nfam.Store(nil, Add(n, IntLit(1))))
	return n
}

func (x *Exec) externalCall(st *State, name string, recv Val, args []Val, res *types.Tuple) Val {
	h := st.heap
	n := x.logAppend(st, name, recv, args)
	x.trust("calls through open interfaces / callbacks (" + strings.SplitN(name, ".", 2)[0] + ") do not modify modelled state; they are recorded in a ghost call log")
	var results []Val
	ri := 0
	for i := 0; res != nil && i < res.Len(); i++ {
		rv := freshVal(res.At(i).Type(), "ext."+name)
		x.noteLoaded(st, rv)
		results = append(results, rv)
		var fl []*Term
		flatten(rv, &fl)
		for _, t := range fl {
			if t.sort == SInt {
				f := fmt.Sprintf("log#r%d", ri)
				h.Set(f, h.Get(f, 1, SInt).Store([]*Term{n}, t))
				ri++
			}
		}
	}
	// function-local assumptions about the results of this external call
	if x.contract != nil {
		for _, a := range x.contract.Assumes {
			if strings.HasPrefix(a.Anchor, "call ") && strings.HasSuffix(name, strings.TrimSpace(strings.TrimPrefix(a.Anchor, "call "))) {
				ce := x.newCEnv(st)
				ce.old = x.oldHeap
				for i, r := range results {
					ce.vars[fmt.Sprintf("result%d", i)] = r
				}
				x.assume(st, x.evalClause(ce, a.Clause, name))
				x.trust("assumed about " + name + " in " + x.funcDisplayName() + ": " + a.Clause.Text)
			}
		}
	}
	// assumed contract on the interface method (results only)
	if ic := x.P.ifaceContracts[name]; ic != nil {
		ce := &CEnv{x: x, vars: map[string]Val{}, heap: st.heap, old: st.heap, alloc: st.alloc, allocOld: st.alloc}
		if x.fn != nil && x.fn.Pkg != nil {
			ce.pkg = x.fn.Pkg.Pkg
		}
		for i, r := range results {
			if i < len(ic.Returns) {
				ce.vars[ic.Returns[i]] = r
			}
		}
		for i, a := range args {
			ce.vars[fmt.Sprintf("arg%d", i)] = a
		}
		for _, e := range ic.Ensures {
			x.assume(st, x.evalClause(ce, e, name))
		}
		x.trust("assumed contract on interface method " + name + ": " + ic.Trusted)
	}
	return tupleOf(results)
}

// ---------- builtins ----------

func (x *Exec) builtin(st *State, site ssa.Instruction, b *ssa.Builtin, c *ssa.CallCommon) Val {
	switch b.Name() {
	case "len":
		v := x.get(st, c.Args[0])
		switch v.K {
		case VSlice:
			return scalarVal(v.Len, types.Typ[types.Int])
		case VMap:
			return scalarVal(mapLen(st.heap, v), types.Typ[types.Int])
		case VScalar:
			l := App("str.len", SInt, v.T)
			x.assume(st, Ge(l, IntLit(0)))
			return scalarVal(l, types.Typ[types.Int])
		case VStruct:
			return scalarVal(IntLit(int64(len(v.Fields))), types.Typ[types.Int])
		}
	case "cap":
		v := x.get(st, c.Args[0])
		if v.K == VSlice {
			cp := FreshVar("cap", SInt)
			x.assume(st, Ge(cp, v.Len))
			return scalarVal(cp, types.Typ[types.Int])
		}
	case "append":
		return x.appendOp(st, site, c)
	case "copy":
		dst := x.get(st, c.Args[0])
		src := x.get(st, c.Args[1])
		if dst.K != VSlice || src.K != VSlice {
			unsupported("copy of non-slices")
		}
		// only the whole-slice copy into a fresh slice of the same length is modelled exactly
		n := Ite(Le(dst.Len, src.Len), dst.Len, src.Len)
		et := sliceElemType(dst.Typ)
		var fs []famRef
		placeFamilies("elem."+typeKey(et), et, &fs)
		for _, f := range fs {
			fam := st.heap.Get(f.name, 2, f.sort)
			// dst[off_d + j] := src[off_s + j] for 0 <= j < n  — expressed as a row shift guarded by length:
			// requires dst.Len <= src.Len or vice versa; we model full-row replacement when lengths match
			st.heap.Set(f.name, fam.RowShift(dst.Arr, fam, src.Arr, Sub(src.Off, dst.Off)))
		}
		x.safety(st, site, "copylen", Eq(dst.Len, src.Len))
		return scalarVal(n, types.Typ[types.Int])
	case "delete":
		m := x.get(st, c.Args[0])
		k := keyTerm(x.get(st, c.Args[1]))
		x.mapDelete(st, m, k)
		return Val{K: VTuple}
	case "print", "println":
		return Val{K: VTuple}
	case "panic":
		x.safety(st, site, "panic", False())
		st.pc = False()
		return Val{K: VTuple}
	case "min", "max":
		a, bb := x.get(st, c.Args[0]).T, x.get(st, c.Args[1]).T
		if b.Name() == "min" {
			return scalarVal(Ite(Le(a, bb), a, bb), c.Args[0].Type())
		}
		return scalarVal(Ite(Ge(a, bb), a, bb), c.Args[0].Type())
	}
	unsupported("builtin %s", b.Name())
	return Val{}
}

// append: the result is always a fresh backing array holding a copy (capacity is not modelled).
// Element indices are preserved (the new slice keeps the old offset), so no shifting is needed.
func (x *Exec) appendOp(st *State, site ssa.Instruction, c *ssa.CallCommon) Val {
	s := x.get(st, c.Args[0])
	add := x.get(st, c.Args[1])
	if s.K != VSlice {
		unsupported("append to non-slice")
	}
	x.trust("append returns a fresh backing array (capacity and in-place growth are not modelled)")
	et := sliceElemType(s.Typ)
	var fs []famRef
	placeFamilies("elem."+typeKey(et), et, &fs)
	ref := x.freshRef(st)
	if add.K == VScalar && isStringT(add.Typ) {
		unsupported("append(bytes, string...)")
	}
	if add.K != VSlice {
		unsupported("append with non-slice tail")
	}
	// result row: copy of s's row, then tail elements at positions off+len .. off+len+addlen-1
	// tail position j (absolute in new row) takes add[add.off + (j - s.off - s.len)]
	for _, f := range fs {
		fam := st.heap.Get(f.name, 2, f.sort)
		n1 := fam.RowCopy(ref, fam, s.Arr)
		st.heap.Set(f.name, n1)
	}
	if n, ok := add.Len.IntVal(); ok {
		for j := int64(0); j < n; j++ {
			src := loadPlace(st.heap, elemPlace(add, IntLit(j)), et)
			dst := Place{"elem." + typeKey(et), []*Term{ref, Add(Add(s.Off, s.Len), IntLit(j))}}
			storePlace(st.heap, dst, et, src)
		}
	} else {
		// symbolic tail length: positions >= off+len of the new row come from the tail, shifted
		x.appendSymbolic(st, s, add, ref, et, fs)
	}
	return Val{K: VSlice, Typ: s.Typ, Arr: ref, Off: s.Off, Len: Add(s.Len, add.Len)}
}

// appendSymbolic: row(ref)[j] = s.row[j] for j < s.off+s.len, else add.row[j - (s.off+s.len) + add.off].
func (x *Exec) appendSymbolic(st *State, s, add Val, ref *Term, et types.Type, fs []famRef) {
	for _, f := range fs {
		fam := st.heap.Get(f.name, 2, f.sort)
		n := newHNode(hRowSplice, 2, f.sort)
		n.prev = fam
		n.other = fam
		n.ref = ref
		n.srcRef = s.Arr
		n.cond = Add(s.Off, s.Len)                // split position
		n.delta = Sub(add.Off, Add(s.Off, s.Len)) // index shift for the tail
		n.val = add.Arr                           // tail row
		st.heap.Set(f.name, n)
	}
}
