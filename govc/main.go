package main

import (
	"flag"
	"fmt"
	"os"
	"runtime"
	"sort"
	"strings"
	"time"

	"golang.org/x/tools/go/ssa"
)

func main() {
	if len(os.Args) < 2 {
		fmt.Fprintln(os.Stderr, "usage: govc verify|check|list ...")
		os.Exit(2)
	}
	switch os.Args[1] {
	case "verify":
		cmdVerify(os.Args[2:])
	case "check":
		cmdCheck(os.Args[2:])
	case "list":
		cmdList(os.Args[2:])
	case "ssa":
		cmdSSA(os.Args[2:])
	default:
		fmt.Fprintln(os.Stderr, "unknown command", os.Args[1])
		os.Exit(2)
	}
}

func mustLoad(repo string) *Prog {
	memWatch()
	t0 := time.Now()
	P, err := loadProg(repo)
	if err != nil {
		fmt.Fprintln(os.Stderr, "load:", err)
		os.Exit(2)
	}
	if err := P.loadContracts(); err != nil {
		fmt.Fprintln(os.Stderr, "contracts:", err)
		os.Exit(2)
	}
	kf := "/verif/known_findings.json"
	if e := os.Getenv("VERIF_FINDINGS"); e != "" {
		kf = e // development: try a findings file before committing it
	}
	loadJSON(kf, &P.findings)
	fmt.Fprintf(os.Stderr, "loaded %s in %.1fs; %d contracts\n", repo, time.Since(t0).Seconds(), len(P.contracts))
	return P
}

func cmdSSA(args []string) {
	fs := flag.NewFlagSet("ssa", flag.ExitOnError)
	repo := fs.String("repo", "/repo", "repository")
	fn := fs.String("func", "", "function (package-local name, e.g. seat_manager::(*seatManager).IsHU)")
	fs.Parse(args)
	P := mustLoad(*repo)
	for k, f := range P.byName {
		if strings.HasSuffix(k, *fn) {
			f.WriteTo(os.Stdout)
			cfg := getCFG(f)
			for _, l := range cfg.loops {
				fmt.Printf("loop %d header block %d (%d blocks)\n", l.Ordinal, l.Header.Index, len(l.Blocks))
			}
		}
	}
}

func cmdList(args []string) {
	fs := flag.NewFlagSet("list", flag.ExitOnError)
	repo := fs.String("repo", "/repo", "repository")
	uncov := fs.Bool("uncovered", false, "list the functions of the module that have no contract (neither verified nor inlined by declaration)")
	fs.Parse(args)
	P := mustLoad(*repo)
	if *uncov {
		var out []string
		for k, f := range P.byName {
			if !strings.HasPrefix(k, modPath) || len(f.Blocks) == 0 || strings.Contains(k, "/testcases") || strings.Contains(k, "$bound") || strings.Contains(k, "$thunk") {
				continue
			}
			if _, ok := P.contracts[f]; ok {
				continue
			}
			if f.Synthetic != "" || strings.HasSuffix(f.Name(), "init") {
				continue
			}
			out = append(out, shortFuncName(f))
		}
		sort.Strings(out)
		for _, n := range out {
			fmt.Println(n)
		}
		return
	}
	var names []string
	for fn, c := range P.contracts {
		names = append(names, fmt.Sprintf("%-70s %v", shortFuncName(fn), c.Props))
	}
	sort.Strings(names)
	for _, n := range names {
		fmt.Println(n)
	}
	for _, e := range P.contractErrs {
		fmt.Println("ERROR:", e)
	}
}

// jobs for a contract: one per configuration value
type job struct {
	fn    *ssa.Function
	c     *Contract
	cfg   int
	has   bool
	extra []int // values of the split variables, in order
}

// intEval: evaluate an integer expression over configuration / split variables only.
func intEval(e *CExpr, env map[string]int) int {
	switch e.Op {
	case "int":
		return int(e.Int)
	case "ident":
		return env[e.Name]
	case "neg":
		return -intEval(e.Args[0], env)
	case "+":
		return intEval(e.Args[0], env) + intEval(e.Args[1], env)
	case "-":
		return intEval(e.Args[0], env) - intEval(e.Args[1], env)
	case "*":
		return intEval(e.Args[0], env) * intEval(e.Args[1], env)
	}
	panic(fmt.Sprintf("split bound %s is not an integer expression over configuration variables", e))
}

func expandSplits(j job) []job {
	c := j.c
	if len(c.Splits) == 0 {
		return []job{j}
	}
	out := []job{j}
	for si, sp := range c.Splits {
		var next []job
		for _, b := range out {
			env := map[string]int{}
			if c.Config != nil {
				env[c.Config.Var] = b.cfg
			}
			for k := 0; k < si; k++ {
				env[c.Splits[k].Var] = b.extra[k]
			}
			lo, hi := intEval(sp.Lo, env), intEval(sp.Hi, env)
			for v := lo; v <= hi; v++ {
				nb := b
				nb.extra = append(append([]int{}, b.extra...), v)
				next = append(next, nb)
			}
		}
		out = next
	}
	return out
}

var quickTier bool

func jobsFor(fn *ssa.Function, c *Contract, only int) []job {
	if c.Config == nil {
		return expandSplits(job{fn: fn, c: c})
	}
	var js []job
	lo, hi := c.Config.Lo, c.Config.Hi
	if quickTier {
		lo, hi = c.Config.QLo, c.Config.QHi
	}
	for m := lo; m <= hi; m++ {
		if only >= 0 && m != only {
			continue
		}
		js = append(js, expandSplits(job{fn: fn, c: c, cfg: m, has: true})...)
	}
	return js
}

func cmdVerify(args []string) {
	fs := flag.NewFlagSet("verify", flag.ExitOnError)
	repo := fs.String("repo", "/repo", "repository")
	fname := fs.String("func", "", "substring of function name")
	only := fs.Int("M", -1, "only this configuration value")
	timeout := fs.Int("t", 10, "solver timeout (s)")
	work := fs.String("work", "/verif/.work/dev", "work dir")
	verbose := fs.Bool("v", false, "verbose")
	nosolve := fs.Bool("nosolve", false, "generate only")
	showModel := fs.Bool("model", false, "print counter-models")
	evals := fs.String("eval", "", "contract expressions (separated by ;;) to evaluate in counter-models")
	fs.Parse(args)
	P := mustLoad(*repo)
	for _, e := range P.contractErrs {
		fmt.Println("CONTRACT ERROR:", e)
	}
	if *evals != "" {
		debugEvalExprs = strings.Split(*evals, ";;")
	}
	var fns []*ssa.Function
	for fn, c := range P.contracts {
		if c.Trusted != "" || (c.Inline && len(c.Ensures) == 0) {
			continue
		}
		if *fname == "" || strings.Contains(shortFuncName(fn), *fname) {
			fns = append(fns, fn)
		}
	}
	sort.Slice(fns, func(i, j int) bool { return shortFuncName(fns[i]) < shortFuncName(fns[j]) })
	bad := 0
	for _, fn := range fns {
		c := P.contracts[fn]
		for _, j := range jobsFor(fn, c, *only) {
			t0 := time.Now()
			res := P.verifyFunc(j.fn, j.c, j.cfg, j.has, j.extra...)
			gen := time.Since(t0).Seconds()
			if *nosolve {
				for _, o := range res.Obls {
					os.WriteFile(oblFile(*work, o), []byte(EmitSMT(o.Hyps, o.Goal, "", o.Cover, o.Watch)), 0o644)
				}
			}
			if !*nosolve {
				solveAll(res.Obls, *work, *timeout, runtime.NumCPU())
			}
			nOK, nBad := 0, 0
			for _, o := range res.Obls {
				ok := (o.Cover && o.Status != "unsat") || (!o.Cover && o.Status == "unsat")
				if ok {
					nOK++
				} else {
					nBad++
				}
				if !ok || *verbose {
					fmt.Printf("  %-8s %-10s %6.2fs  %s   [%s]\n", o.Status, o.Solver, o.Time, o.Name, o.Note)
					if *showModel && !ok && !o.Cover {
						for _, kv := range parseValues(o) {
							fmt.Printf("      %-40s = %s\n", kv[0], kv[1])
						}
					}
				}
			}
			fmt.Printf("%s %s: %d obligations, %d ok, %d not ok, gen %.2fs %s\n", res.Name, res.Config, len(res.Obls), nOK, nBad, gen, res.Err)
			if res.Err != "" || nBad > 0 {
				bad++
			}
		}
	}
	if bad > 0 {
		os.Exit(1)
	}
}

func cmdCheck(args []string) {
	runCheck(args)
}
