package main

import (
	"sort"

	"golang.org/x/tools/go/ssa"
)

// Loop forest of an SSA function, from dominance (natural loops).

type Loop struct {
	Header  *ssa.BasicBlock
	Blocks  map[*ssa.BasicBlock]bool
	Parent  *Loop
	Kids    []*Loop
	Ordinal int // order of headers in reverse post-order = source order
}

type FuncCFG struct {
	fn       *ssa.Function
	rpo      []*ssa.BasicBlock
	rpoIndex map[*ssa.BasicBlock]int
	loops    []*Loop                   // all loops, by ordinal
	headerOf map[*ssa.BasicBlock]*Loop // header block -> loop
	inner    map[*ssa.BasicBlock]*Loop // innermost loop containing block (nil = none)
}

var cfgCache = map[*ssa.Function]*FuncCFG{}

func getCFG(fn *ssa.Function) *FuncCFG {
	if c, ok := cfgCache[fn]; ok {
		return c
	}
	c := &FuncCFG{fn: fn, rpoIndex: map[*ssa.BasicBlock]int{}, headerOf: map[*ssa.BasicBlock]*Loop{}, inner: map[*ssa.BasicBlock]*Loop{}}
	if len(fn.Blocks) == 0 {
		cfgCache[fn] = c
		return c
	}
	// back edges: u -> h with h dominating u
	isBack := func(u, h *ssa.BasicBlock) bool { return h.Dominates(u) }
	// post-order DFS ignoring back edges
	seen := map[*ssa.BasicBlock]bool{}
	var post []*ssa.BasicBlock
	var dfs func(b *ssa.BasicBlock)
	dfs = func(b *ssa.BasicBlock) {
		seen[b] = true
		for _, s := range b.Succs {
			if isBack(b, s) {
				continue
			}
			if !seen[s] {
				dfs(s)
			}
		}
		post = append(post, b)
	}
	dfs(fn.Blocks[0])
	for i := len(post) - 1; i >= 0; i-- {
		c.rpoIndex[post[i]] = len(c.rpo)
		c.rpo = append(c.rpo, post[i])
	}
	// natural loops
	for _, u := range c.rpo {
		for _, h := range u.Succs {
			if !isBack(u, h) {
				continue
			}
			l := c.headerOf[h]
			if l == nil {
				l = &Loop{Header: h, Blocks: map[*ssa.BasicBlock]bool{h: true}}
				c.headerOf[h] = l
			}
			// reverse reachability from u up to h
			stack := []*ssa.BasicBlock{u}
			for len(stack) > 0 {
				b := stack[len(stack)-1]
				stack = stack[:len(stack)-1]
				if l.Blocks[b] {
					continue
				}
				l.Blocks[b] = true
				for _, p := range b.Preds {
					if _, reach := c.rpoIndex[p]; reach {
						stack = append(stack, p)
					}
				}
			}
		}
	}
	for _, l := range c.headerOf {
		c.loops = append(c.loops, l)
	}
	sort.Slice(c.loops, func(i, j int) bool { return c.rpoIndex[c.loops[i].Header] < c.rpoIndex[c.loops[j].Header] })
	for i, l := range c.loops {
		l.Ordinal = i
	}
	// nesting: parent = smallest loop strictly containing the header
	for _, l := range c.loops {
		var best *Loop
		for _, m := range c.loops {
			if m == l || !m.Blocks[l.Header] {
				continue
			}
			if best == nil || len(m.Blocks) < len(best.Blocks) {
				best = m
			}
		}
		l.Parent = best
		if best != nil {
			best.Kids = append(best.Kids, l)
		}
	}
	for _, b := range c.rpo {
		var best *Loop
		for _, m := range c.loops {
			if m.Blocks[b] && (best == nil || len(m.Blocks) < len(best.Blocks)) {
				best = m
			}
		}
		c.inner[b] = best
	}
	cfgCache[fn] = c
	return c
}

// blocksOf returns the blocks of a region (loop or whole function) in RPO.
func (c *FuncCFG) blocksOf(l *Loop) []*ssa.BasicBlock {
	var out []*ssa.BasicBlock
	for _, b := range c.rpo {
		if l == nil || l.Blocks[b] {
			out = append(out, b)
		}
	}
	return out
}
