package main

import (
	"encoding/json"
	"flag"
	"fmt"
	"os"
	"path/filepath"
	"regexp"
	"runtime"
	"sort"
	"strings"
	"time"

	"golang.org/x/tools/go/ssa"
)

// ---- known findings / undecided / baseline files (committed under /verif, never written by a check) ----

var callOrdinal = regexp.MustCompile(`#\d+(\.\d+)?`)

type Finding struct {
	Property string `json:"property"`
	Function string `json:"function"` // short function name as printed in obligation names
	Kind     string `json:"kind"`     // ensures
	Label    string `json:"label"`
	Except   string `json:"except"` // contract expression (post-state env, old() allowed) describing the failing class
	What     string `json:"what"`
	Witness  string `json:"witness"`
	Canary   string `json:"canary,omitempty"`
}

type FindingsFile struct {
	Findings []Finding `json:"findings"`
	Fixed    []string  `json:"fixed"`
}

type Undecided struct {
	Group  string `json:"group"` // obligation group name (prefix match allowed with trailing *)
	Reason string `json:"reason"`
}

type BaselineFile struct {
	// property -> sorted list of obligation group names that discharge on the unchanged tree
	Groups map[string][]string `json:"groups"`
	Slow   map[string]float64  `json:"slow"` // group -> seconds (groups only run in the thorough tier)
}

var verifDir = "/verif"

func loadJSON(path string, v interface{}) bool {
	b, err := os.ReadFile(path)
	if err != nil {
		return false
	}
	if err := json.Unmarshal(b, v); err != nil {
		fmt.Fprintf(os.Stderr, "warning: %s: %v\n", path, err)
		return false
	}
	return true
}

func (P *Prog) findingsFor(fname string) []Finding {
	var out []Finding
	for _, f := range P.findings.Findings {
		if f.Function == fname {
			out = append(out, f)
		}
	}
	return out
}

// ---- evidence ----

type Evidence struct {
	PropertyID  string                 `json:"property_id"`
	Tier        string                 `json:"tier"`
	Seed        int                    `json:"seed"`
	Level       string                 `json:"level"`
	Coverage    map[string]interface{} `json:"coverage"`
	Assumptions []string               `json:"assumptions"`
	WallS       float64                `json:"wall_s"`
	Violations  int                    `json:"violations"`
}

type groupResult struct {
	Name    string
	Obls    []*Obligation
	OK      bool
	Status  string
	Time    float64
	Solvers map[string]int
}

func runCheck(args []string) {
	fs := flag.NewFlagSet("check", flag.ExitOnError)
	repo := fs.String("repo", "/repo", "repository")
	prop := fs.String("prop", "", "property id")
	tier := fs.String("tier", "quick", "quick|thorough")
	updateBaseline := fs.Bool("update-baseline", false, "rewrite the baseline entry of this property (development only)")
	timeoutFlag := fs.Int("t", 0, "solver timeout override")
	outDir := fs.String("out", "", "write work files, replays and evidence under this directory instead of /verif (development only)")
	fs.Parse(args)
	if *prop == "" {
		fmt.Fprintln(os.Stderr, "check: -prop required")
		os.Exit(2)
	}
	t0 := time.Now()
	cfgDir := verifDir
	if *outDir != "" {
		verifDir = *outDir
	}
	quickTier = *tier == "quick" && !*updateBaseline
	seed := 0
	fmt.Sscan(os.Getenv("VERIF_SEED"), &seed)
	// the baseline run (20 s per solver) lists every obligation that needs more than 12 s as slow; the quick tier
	// skips those and gives the others 40 s, so that a loaded machine does not turn a 12 s query into an alarm
	timeout := 40
	if *updateBaseline {
		timeout = 20
	}
	if *tier == "thorough" {
		timeout = 60
	}
	if *timeoutFlag > 0 {
		timeout = *timeoutFlag
	}
	memWatch()
	P, err := loadProg(*repo)
	var loadErr string
	if err != nil {
		loadErr = err.Error()
	} else if err := P.loadContracts(); err != nil {
		loadErr = err.Error()
	}
	var base BaselineFile
	loadJSON(filepath.Join(cfgDir, "obligations.baseline.json"), &base)
	var undec []Undecided
	loadJSON(filepath.Join(cfgDir, "undecided.json"), &undec)
	isUndecided := func(g string) (string, bool) {
		for _, u := range undec {
			if u.Group == g || (strings.HasSuffix(u.Group, "*") && strings.HasPrefix(g, strings.TrimSuffix(u.Group, "*"))) {
				return u.Reason, true
			}
		}
		return "", false
	}
	workDir := filepath.Join(verifDir, ".work", *prop)
	os.RemoveAll(workDir)
	os.MkdirAll(workDir, 0o755)
	replayDir := filepath.Join(verifDir, "replays", *prop)
	os.RemoveAll(replayDir)

	var violations []string
	var slowUndecided []string
	var coverUndecided []string
	report := func(obl string, detail string, model bool, extra string) {
		os.MkdirAll(replayDir, 0o755)
		path := filepath.Join(replayDir, unsafeName.ReplaceAllString(obl, "_")+".txt")
		os.WriteFile(path, []byte("failed obligation: "+obl+"\n\n"+detail+"\n"), 0o644)
		line := fmt.Sprintf("VIOLATION property=%s replay=%s obligation=%s", *prop, path, obl)
		if extra != "" {
			line += " " + extra
		}
		if !model {
			line += " no-failing-input-found"
		}
		violations = append(violations, line)
	}

	if loadErr != "" {
		report("load", "the repository or its contracts could not be loaded: "+loadErr, false, "")
		finish(*prop, *tier, seed, t0, nil, nil, violations, nil, nil, nil, timeout)
		return
	}
	loadJSON(filepath.Join(cfgDir, "known_findings.json"), &P.findings)

	// select functions
	// exploratory: an obligation under a configuration outside the range the quick tier runs (only the thorough tier sees it)
	exploratory := func(o *Obligation) bool {
		if *tier != "thorough" || o.fn == nil || o.M == 0 {
			return false
		}
		c := P.contracts[o.fn]
		if c == nil || c.Config == nil {
			return false
		}
		return o.M < c.Config.QLo || o.M > c.Config.QHi
	}
	var fns []*ssa.Function
	for fn, c := range P.contracts {
		for _, p := range c.Props {
			if p == *prop {
				fns = append(fns, fn)
			}
		}
	}
	sort.Slice(fns, func(i, j int) bool { return shortFuncName(fns[i]) < shortFuncName(fns[j]) })
	var results []*FuncResult
	var all []*Obligation
	trusted := map[string]bool{}
	var funcsUnder []map[string]interface{}
	var assumed []string
	for _, fn := range fns {
		c := P.contracts[fn]
		if c.Trusted != "" {
			assumed = append(assumed, shortFuncName(fn)+": "+c.Trusted)
			continue
		}
		if c.Inline && len(c.Ensures) == 0 {
			continue
		}
		nobl := 0
		genErr := ""
		for _, j := range jobsFor(fn, c, -1) {
			res := P.verifyFunc(j.fn, j.c, j.cfg, j.has, j.extra...)
			results = append(results, res)
			for _, o := range res.Obls {
				if o.Group == "" {
					o.Group = o.Name
				}
			}
			all = append(all, res.Obls...)
			nobl += len(res.Obls)
			for _, t := range res.Trusted {
				trusted[t] = true
			}
			if res.Err != "" {
				genErr = res.Err
				report(res.Name+"/generate@"+res.Config, "verification conditions could not be generated: "+res.Err, false, "")
			}
		}
		pos := P.prog.Fset.Position(fn.Pos())
		cfgTxt := "single run, seat count symbolic within the contract's precondition"
		if c.Config != nil {
			lo, hi := c.Config.Lo, c.Config.Hi
			if quickTier {
				lo, hi = c.Config.QLo, c.Config.QHi
			}
			cfgTxt = fmt.Sprintf("%s in %d..%d, one complete run per value (contract range %d..%d)", c.Config.Var, lo, hi, c.Config.Lo, c.Config.Hi)
		}
		fu := map[string]interface{}{"function": shortFuncName(fn), "file": shortFile(pos.Filename), "contract_hash": c.Hash(), "obligations": nobl, "generation_error": genErr, "configurations": cfgTxt}
		if c.Partial != "" {
			fu["partial"] = c.Partial
		}
		funcsUnder = append(funcsUnder, fu)
	}
	for _, e := range P.contractErrs {
		// a contract whose function no longer exists: the proof that carried the property is gone
		report("contract-binding", e, false, "")
	}
	// group obligations; decide which to run in this tier
	groups := map[string]*groupResult{}
	var order []string
	stripCfg := func(n string) string {
		if i := strings.LastIndex(n, "@"); i >= 0 && !strings.Contains(n[i:], "/") {
			return n[:i]
		}
		return n
	}
	for _, o := range all {
		if o.Kind == "cover" || o.Kind == "finding" {
			// vacuity guards and finding-presence queries hold if they hold under some configuration
			o.Group = stripCfg(o.Group)
		}
		g := groups[o.Group]
		if g == nil {
			g = &groupResult{Name: o.Group, Solvers: map[string]int{}}
			groups[o.Group] = g
			order = append(order, o.Group)
		}
		g.Obls = append(g.Obls, o)
	}
	var run []*Obligation
	skippedSlow := 0
	var undecidedList []string
	for _, gn := range order {
		g := groups[gn]
		if reason, ok := isUndecided(gn); ok {
			undecidedList = append(undecidedList, gn+": "+reason)
			g.Status = "undecided"
			continue
		}
		for _, o := range g.Obls {
			if _, slow := base.Slow[o.Name]; slow && *tier == "quick" && !*updateBaseline {
				skippedSlow++
				o.Status = "skipped-slow"
				continue
			}
			if _, slow := base.Slow[o.Name]; slow && !*updateBaseline {
				o.fewSolvers = true
			}
			run = append(run, o)
		}
	}
	solveAll(run, workDir, timeout, runtime.NumCPU())

	// verdicts
	solverTime := 0.0
	maxTime := 0.0
	byBackend := map[string]int{}
	discharged, total := 0, 0
	var samples []map[string]interface{}
	var knownLines []string
	var newGroups []string
	slowNow := map[string]float64{}
	_ = 0
	for _, gn := range order {
		g := groups[gn]
		if g.Status == "undecided" || g.Status == "skipped-slow" {
			continue
		}
		g.OK = true
		anyCoverSat := false
		isCoverGroup := len(g.Obls) > 0 && g.Obls[0].Kind == "cover"
		for _, o := range g.Obls {
			if o.Cover && o.Status == "sat" {
				anyCoverSat = true
			}
		}
		for _, o := range g.Obls {
			if o.Status == "skipped-slow" {
				continue
			}
			solverTime += o.Time
			g.Time += o.Time
			if o.Time > maxTime {
				maxTime = o.Time
			}
			ok := (o.Cover && o.Status == "sat") || (!o.Cover && o.Status == "unsat")
			if o.Kind == "finding" {
				// sat = the recorded finding is still present
				continue
			}
			if isCoverGroup && anyCoverSat && !ok {
				continue // unreachable under this configuration only
			}
			if o.Cover && !ok && o.Status != "unsat" {
				// a vacuity guard the solvers could not decide either way: nothing is learnt, nothing is claimed
				coverUndecided = append(coverUndecided, o.Name)
				continue
			}
			if _, slow := base.Slow[o.Name]; slow && !ok && !*updateBaseline && (o.Status == "timeout" || o.Status == "unknown") {
				// recorded as close to the time limit: a timeout decides nothing — not counted, never a violation
				slowUndecided = append(slowUndecided, o.Name)
				continue
			}
			if exploratory(o) && !ok && !*updateBaseline && (o.Status == "timeout" || o.Status == "unknown") {
				// a configuration only the thorough tier visits: it can refute (sat), a timeout there decides nothing
				slowUndecided = append(slowUndecided, o.Name)
				continue
			}
			total++
			if ok {
				discharged++
				byBackend[o.Solver]++
			} else {
				g.OK = false
				g.Status = o.Status
			}
			if o.Time > 12 {
				slowNow[o.Name] = o.Time
			}
		}
		if len(samples) < 6 && g.OK && len(g.Obls) > 0 {
			o := g.Obls[0]
			if o.funs != nil {
				os.WriteFile(oblFile(workDir, o), []byte(EmitSMTWith(o.funs, o.Hyps, o.Goal, o.Cover, o.Watch)), 0o644)
			}
			samples = append(samples, map[string]interface{}{"obligation": o.Name, "kind": o.Kind, "verdict": o.Status, "solver": o.Solver, "seconds": o.Time, "note": o.Note, "smt_file": oblFile(workDir, o)})
		}
	}
	// findings
	otherFindings := map[string]bool{}
	for _, gn := range order {
		g := groups[gn]
		for _, o := range g.Obls {
			if o.Kind == "finding" && (o.Status == "sat" || o.Status == "unknown" || o.Status == "timeout") {
				if o.FProp != "" && o.FProp != *prop {
					// a finding recorded for another property on a function this property shares: the clause
					// is weakened here too, but it is reported by that property's check
					otherFindings[fmt.Sprintf("property=%s %s", o.FProp, o.Note)] = true
					continue
				}
				line := fmt.Sprintf("KNOWN-FINDING: property=%s %s", *prop, o.Note)
				dup := false
				for _, l := range knownLines {
					if l == line {
						dup = true
					}
				}
				if !dup {
					knownLines = append(knownLines, line)
				}
			}
		}
	}
	// thorough tier: the canary of every recorded finding of this property is run on the real code
	canaries := map[string]string{}
	if *tier == "thorough" {
		for _, f := range P.findings.Findings {
			if f.Property == *prop && f.Canary != "" {
				if _, done := canaries[f.Canary]; !done {
					canaries[f.Canary] = runCanary(P.repo, filepath.Join(cfgDir, f.Canary))
				}
			}
		}
	}
	// failures
	for _, gn := range order {
		g := groups[gn]
		if g.Status == "undecided" || g.Status == "skipped-slow" || g.OK {
			continue
		}
		for _, o := range g.Obls {
			if o.Kind == "finding" {
				continue
			}
			ok := (o.Cover && o.Status == "sat") || (!o.Cover && o.Status == "unsat")
			if ok {
				continue
			}
			if o.Cover && o.Status != "unsat" {
				continue
			}
			if _, slow := base.Slow[o.Name]; slow && (o.Status == "timeout" || o.Status == "unknown") {
				continue
			}
			if exploratory(o) && (o.Status == "timeout" || o.Status == "unknown") {
				continue
			}
			if o.Status == "skipped-slow" {
				continue
			}
			detail := fmt.Sprintf("kind: %s\nclause: %s\nconfiguration: %s\nsolver verdict: %s (%s, %.2fs)\nSMT file: %s\n", o.Kind, o.Note, o.Config, o.Status, o.Solver, o.Time, oblFile(workDir, o))
			hasModel := false
			if o.Cover {
				detail += "\nthis is a vacuity guard: the precondition / path must be satisfiable, the solver says it is not\n"
			} else if o.Status == "sat" {
				detail += "\ncounter-model (values of parameters, results and watched expressions):\n"
				for _, kv := range parseValues(o) {
					detail += fmt.Sprintf("  %-40s = %s\n", kv[0], kv[1])
				}
				rp, okr, msg := P.tryReplay(o, replayDir)
				detail += "\nreplay on the real code: " + msg + "\n"
				if okr {
					hasModel = true
					_ = rp
				}
			} else {
				detail += "\nsolver output:\n" + truncate(o.Model, 2000) + "\n"
			}
			report(o.Name, detail, hasModel, "")
			break // one line per group
		}
	}
	// baseline: every group recorded for this property must still exist
	// (compared without the configuration suffix: the quick tier runs a sub-range of the configurations
	// the baseline was recorded with; a clause, call site or loop that disappears does so under every configuration)
	// ... and without the unrolling ordinal of a call site (#iteration.k), which exists only for large enough tables
	normGroup := func(g string) string { return callOrdinal.ReplaceAllString(stripCfg(g), "#") }
	present := map[string]bool{}
	for _, gn := range order {
		present[normGroup(gn)] = true
	}
	if !*updateBaseline {
		reported := map[string]bool{}
		for _, g0 := range base.Groups[*prop] {
			gn := normGroup(g0)
			if reported[gn] {
				continue
			}
			if !present[gn] {
				reported[gn] = true
				if _, ok := isUndecided(gn); ok {
					continue
				}
				report(gn, "this obligation was discharged on the unchanged tree and is no longer generated (function, contract clause or loop disappeared): the proof that carried the property no longer exists", false, "")
			}
		}
		known := map[string]bool{}
		for _, gn := range base.Groups[*prop] {
			known[normGroup(gn)] = true
		}
		for _, gn := range order {
			if !known[normGroup(gn)] && !strings.Contains(gn, "/safety:") && !strings.Contains(gn, "/frame:") && !strings.Contains(gn, "/finding:") && !strings.Contains(gn, "/cover:") && !strings.Contains(gn, "config-cover:") && !strings.Contains(gn, "split-cover:") {
				newGroups = append(newGroups, gn)
			}
		}
	} else {
		if base.Groups == nil {
			base.Groups = map[string][]string{}
		}
		if base.Slow == nil {
			base.Slow = map[string]float64{}
		}
		var gs []string
		for _, gn := range order {
			g := groups[gn]
			if g.OK && !strings.Contains(gn, "/safety:") && !strings.Contains(gn, "/frame:") && !strings.Contains(gn, "/finding:") && !strings.Contains(gn, "/cover:") {
				gs = append(gs, gn)
			}
		}
		sort.Strings(gs)
		base.Groups[*prop] = gs
		for _, o := range all {
			delete(base.Slow, o.Name)
			delete(base.Slow, o.Group)
		}
		for gn, t := range slowNow {
			base.Slow[gn] = float64(int(t*10)) / 10
		}
		b, _ := json.MarshalIndent(base, "", " ")
		os.WriteFile(filepath.Join(verifDir, "obligations.baseline.json"), b, 0o644)
	}
	cov := map[string]interface{}{
		"obligations": total, "discharged": discharged,
	}
	finish(*prop, *tier, seed, t0, cov, map[string]interface{}{
		"functions_under_contract": funcsUnder, "by_backend": byBackend, "solver_time_s": map[string]float64{"sum": round2(solverTime), "max": round2(maxTime)},
		"samples": samples, "assumed_contracts": assumed, "undecided_clauses": undecidedList, "skipped_slow_groups_in_quick_tier": skippedSlow,
		"new_groups_not_in_baseline": newGroups, "groups": len(order), "slow_groups_undecided_this_run": slowUndecided, "vacuity_guards_undecided": coverUndecided, "canaries_of_known_findings": canaries, "findings_of_other_properties_on_shared_functions": sortedKeys(otherFindings),
	}, violations, knownLines, sortedKeys(trusted), P, timeout)
}

func round2(f float64) float64 { return float64(int(f*100)) / 100 }

func finish(prop, tier string, seed int, t0 time.Time, cov map[string]interface{}, extra map[string]interface{}, violations, known, trusted []string, P *Prog, timeout int) {
	if cov == nil {
		cov = map[string]interface{}{"obligations": 0, "discharged": 0}
	}
	for k, v := range extra {
		cov[k] = v
	}
	cov["checker_cmd"] = fmt.Sprintf("govc check -prop %s -tier %s  =>  per obligation: z3-new -T:%d f.smt2 | cvc5 --tlimit=%d f.smt2 | z3 -T:%d f.smt2 (first definitive answer)", prop, tier, timeout, timeout*1000, timeout)
	tb := append([]string{"govc itself (VC generator, memory model, contract language): soundness argued in DESIGN.md, exercised by the must-fail corpus", "SMT solvers z3 5.1.0, cvc5 1.0, z3 4.8.12"}, trusted...)
	cov["trusted_base"] = tb
	cov["known_findings"] = known
	cov["configuration_split"] = "functions that compute with the seat count are verified once per seat count; the range run in this tier is listed per function under functions_under_contract[].configurations, and nothing is claimed by this run for seat counts outside it"
	if _, ok := cov["samples"]; !ok {
		cov["samples"] = []string{"none"}
	}
	ev := Evidence{PropertyID: prop, Tier: tier, Seed: seed, Level: "proof", Coverage: cov, WallS: round2(time.Since(t0).Seconds()), Violations: len(violations)}
	ev.Assumptions = append(ev.Assumptions, "every function is verified as if it ran alone from a state satisfying its precondition (no interleaving)",
		"integers are mathematical (no overflow); chip amounts are far below 2^63 in practice but this is not proved",
		"termination is only established for unrolled loops (unwinding assertions) and loops with a decreases clause")
	ev.Assumptions = append(ev.Assumptions, trusted...)
	b, _ := json.MarshalIndent(ev, "", " ")
	os.MkdirAll(filepath.Join(verifDir, "evidence"), 0o755)
	os.WriteFile(filepath.Join(verifDir, "evidence", prop+".json"), b, 0o644)
	for _, k := range known {
		fmt.Println(k)
	}
	for _, v := range violations {
		fmt.Println(v)
	}
	d, _ := cov["discharged"].(int)
	o, _ := cov["obligations"].(int)
	fmt.Printf("property %s tier %s: %d/%d obligations discharged, %d violation(s), %d known finding(s), %.1fs\n", prop, tier, d, o, len(violations), len(known), time.Since(t0).Seconds())
	if len(violations) > 0 {
		os.Exit(1)
	}
	os.Exit(0)
}
