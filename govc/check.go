package main

func runCheck(args []string) {}
