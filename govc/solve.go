package main

import (
	"bytes"
	"context"
	"fmt"
	"os"
	"os/exec"
	"path/filepath"
	"regexp"
	"strings"
	"sync"
	"time"
)

type solverSpec struct {
	name string
	cmd  func(file string, timeout int) []string
}

var solvers = []solverSpec{
	{"z3-5.1.0", func(f string, t int) []string { return []string{"z3-new", fmt.Sprintf("-T:%d", t), f} }},
	{"cvc5-1.0", func(f string, t int) []string {
		return []string{"cvc5", fmt.Sprintf("--tlimit=%d", t*1000), "--produce-models", f}
	}},
	{"z3-4.8.12", func(f string, t int) []string { return []string{"z3", fmt.Sprintf("-T:%d", t), f} }},
}

var unsafeName = regexp.MustCompile(`[^A-Za-z0-9_.@#-]+`) // no '=': z3 reads an argument containing one as a parameter setting

var (
	oblFileMu  sync.Mutex
	oblFileSeq int
)

// oblFile: the query file of an obligation; unique per obligation (two obligations may have the same
// sanitised name, and files of discharged obligations are deleted while others are still being solved).
func oblFile(dir string, o *Obligation) string {
	oblFileMu.Lock()
	defer oblFileMu.Unlock()
	if o.file != "" && filepath.Dir(o.file) == filepath.Clean(dir) {
		return o.file
	}
	n := unsafeName.ReplaceAllString(o.Name, "_")
	if len(n) > 170 {
		n = n[:170]
	}
	oblFileSeq++
	o.file = filepath.Join(dir, fmt.Sprintf("%s.%d.smt2", n, oblFileSeq))
	return o.file
}

func runSolver(s solverSpec, file string, timeout int) (status string, out string, secs float64) {
	args := s.cmd(file, timeout)
	ctx, cancel := context.WithTimeout(context.Background(), time.Duration(timeout+5)*time.Second)
	defer cancel()
	cmd := exec.CommandContext(ctx, args[0], args[1:]...)
	var buf bytes.Buffer
	cmd.Stdout = &buf
	cmd.Stderr = &buf
	t0 := time.Now()
	cmd.Run()
	secs = time.Since(t0).Seconds()
	out = buf.String()
	first := strings.TrimSpace(strings.SplitN(out, "\n", 2)[0])
	switch first {
	case "unsat", "sat", "unknown":
		status = first
	case "timeout":
		status = "timeout"
	default:
		if ctx.Err() != nil || strings.Contains(out, "timeout") || strings.Contains(out, "interrupted") {
			status = "timeout"
		} else {
			status = "error"
		}
	}
	return
}

// solveAll discharges obligations with a worker pool; each obligation tries the solvers in turn
// until one gives a definitive answer.
func solveAll(obls []*Obligation, dir string, timeout int, workers int) {
	os.MkdirAll(dir, 0o755)
	var wg sync.WaitGroup
	ch := make(chan *Obligation)
	for w := 0; w < workers; w++ {
		wg.Add(1)
		go func() {
			defer wg.Done()
			for o := range ch {
				solveOne(o, dir, timeout)
			}
		}()
	}
	for _, o := range obls {
		ch <- o
	}
	close(ch)
	wg.Wait()
}

func solveOne(o *Obligation, dir string, timeout int) {
	file := oblFile(dir, o)
	txt := o.SMT
	if txt == "" {
		// rendered here, in the worker, and not kept: the text of all obligations of a property does
		// not fit in memory (terms are immutable, rendering only reads them)
		tooLarge := false
		func() {
			defer func() {
				if r := recover(); r != nil {
					if _, ok := r.(smtTooLarge); ok {
						tooLarge = true
						return
					}
					panic(r)
				}
			}()
			txt = EmitSMTWith(o.funs, o.Hyps, o.Goal, o.Cover, o.Watch)
		}()
		if tooLarge {
			o.Status = "timeout"
			o.Model = fmt.Sprintf("the query text exceeds %d MB (terms under a quantifier cannot be shared): not sent to a solver, undecided", smtCapBytes>>20)
			return
		}
	}
	if err := os.WriteFile(file, []byte(txt), 0o644); err != nil {
		o.Status = "error"
		o.Model = err.Error()
		return
	}
	total := 0.0
	var last string
	for si, s := range solvers {
		if o.fewSolvers && si >= 2 {
			break // an obligation already known to be slow: the third solver has never decided one of these
		}
		st, out, secs := runSolver(s, file, timeout)
		total += secs
		if st == "unsat" || st == "sat" {
			o.Status = st
			o.Solver = s.name
			o.Time = total
			if st == "sat" {
				o.Model = out
			}
			if (o.Cover && st == "sat") || (!o.Cover && st == "unsat") {
				// as expected: the query file is not kept (a property has tens of thousands of them);
				// files of obligations that fail, time out or are sampled into the evidence are kept / re-written
				if os.Getenv("VERIF_KEEP_SMT") == "" {
					os.Remove(file)
				}
			}
			return
		}
		last = fmt.Sprintf("%s: %s\n%s", s.name, st, truncate(out, 400))
		if o.Status == "" || st == "timeout" {
			o.Status = st
		}
	}
	// every solver timed out or gave up: one more attempt with another search seed (search-order luck decides a few
	// obligations that usually take seconds); a definitive answer counts, anything else leaves the verdict as it is
	if !o.fewSolvers && (o.Status == "timeout" || o.Status == "unknown") {
		retry := solverSpec{"z3-5.1.0(seed 7)", func(f string, t int) []string {
			return []string{"z3-new", fmt.Sprintf("-T:%d", t), "smt.random_seed=7", "sat.random_seed=7", f}
		}}
		st, out, secs := runSolver(retry, file, timeout)
		total += secs
		if st == "unsat" || st == "sat" {
			o.Status = st
			o.Solver = retry.name
			o.Time = total
			if st == "sat" {
				o.Model = out
			}
			return
		}
	}
	o.Time = total
	o.Solver = "none"
	o.Model = last
}

func truncate(s string, n int) string {
	if len(s) <= n {
		return s
	}
	return s[:n] + "..."
}

// parseValues pairs the watch list of an obligation with the values printed by (get-value ...).
func parseValues(o *Obligation) [][2]string {
	out := o.Model
	i := strings.Index(out, "((")
	if i < 0 || len(o.Watch) == 0 {
		return nil
	}
	// split the top-level list into (term value) pairs
	body := out[i+1:]
	var pairs []string
	depth := 0
	start := -1
	for k := 0; k < len(body); k++ {
		switch body[k] {
		case '(':
			if depth == 0 {
				start = k
			}
			depth++
		case ')':
			depth--
			if depth == 0 && start >= 0 {
				pairs = append(pairs, body[start:k+1])
				start = -1
			}
			if depth < 0 {
				k = len(body)
			}
		}
	}
	var res [][2]string
	for idx, p := range pairs {
		if idx >= len(o.Watch) {
			break
		}
		// value = last s-expression of the pair
		inner := strings.TrimSpace(p[1 : len(p)-1])
		val := lastSexp(inner)
		res = append(res, [2]string{o.Watch[idx].Name, strings.Join(strings.Fields(val), " ")})
	}
	return res
}

func lastSexp(s string) string {
	s = strings.TrimSpace(s)
	if strings.HasSuffix(s, ")") {
		depth := 0
		for k := len(s) - 1; k >= 0; k-- {
			if s[k] == ')' {
				depth++
			} else if s[k] == '(' {
				depth--
				if depth == 0 {
					return s[k:]
				}
			}
		}
	}
	f := strings.Fields(s)
	if len(f) == 0 {
		return ""
	}
	return f[len(f)-1]
}
