package main

import (
	"crypto/sha256"
	"fmt"
	"go/types"
	"os"
	"path/filepath"
	"sort"
	"strings"

	"golang.org/x/tools/go/packages"
	"golang.org/x/tools/go/ssa"
	"golang.org/x/tools/go/ssa/ssautil"
)

const modPath = "github.com/weedbox/pokertable"

type Prog struct {
	repo           string
	prog           *ssa.Program
	pkgs           []*packages.Package
	spkgs          map[string]*ssa.Package // by import path
	cfiles         map[string]*ContractFile
	contracts      map[*ssa.Function]*Contract
	byName         map[string]*ssa.Function // short name -> function (all packages of the module)
	contractErrs   []string
	tags           map[string]int64
	tagNames       map[int64]string
	ascendingMaps  bool
	errGlobals     map[string]int64 // "global.pkg.Name" -> code
	globalWrites   map[string]bool  // globals stored to outside init
	lemmas         []*Contract
	findings       FindingsFile
	ifaceContracts map[string]*Contract
}

func loadProg(repo string) (*Prog, error) {
	cfg := &packages.Config{Mode: packages.LoadAllSyntax, Dir: repo, BuildFlags: []string{"-tags=verif"},
		Env: append(os.Environ(), "GOFLAGS=-mod=mod", "GOPROXY=off", "GOSUMDB=off", "GOTOOLCHAIN=local")}
	pkgs, err := packages.Load(cfg, "./...")
	if err != nil {
		return nil, err
	}
	var errs []string
	packages.Visit(pkgs, nil, func(p *packages.Package) {
		if strings.HasPrefix(p.PkgPath, modPath) {
			for _, e := range p.Errors {
				errs = append(errs, e.Error())
			}
		}
	})
	if len(errs) > 0 {
		return nil, fmt.Errorf("package errors: %s", strings.Join(errs, "; "))
	}
	prog, _ := ssautil.AllPackages(pkgs, ssa.BuilderMode(0))
	prog.Build()
	P := &Prog{repo: repo, prog: prog, pkgs: pkgs, spkgs: map[string]*ssa.Package{}, cfiles: map[string]*ContractFile{},
		contracts: map[*ssa.Function]*Contract{}, byName: map[string]*ssa.Function{}, tags: map[string]int64{}, tagNames: map[int64]string{},
		errGlobals: map[string]int64{}, globalWrites: map[string]bool{}}
	for _, sp := range prog.AllPackages() {
		P.spkgs[sp.Pkg.Path()] = sp
	}
	// index functions of the module (including anonymous ones)
	for fn := range ssautil.AllFunctions(prog) {
		if fn.Pkg == nil || !(strings.HasPrefix(fn.Pkg.Pkg.Path(), modPath) || strings.HasPrefix(fn.Pkg.Pkg.Path(), "github.com/weedbox/pokerface")) {
			continue
		}
		P.byName[fn.Pkg.Pkg.Path()+"::"+localFuncName(fn)] = fn
	}
	// methods of unexported types and their anonymous functions are not always in AllFunctions
	var addFn func(fn *ssa.Function)
	addFn = func(fn *ssa.Function) {
		if fn == nil || fn.Pkg == nil {
			return
		}
		k := fn.Pkg.Pkg.Path() + "::" + localFuncName(fn)
		if _, ok := P.byName[k]; ok {
			return
		}
		P.byName[k] = fn
		for _, a := range fn.AnonFuncs {
			addFn(a)
		}
	}
	for path, sp := range P.spkgs {
		if !(strings.HasPrefix(path, modPath) || strings.HasPrefix(path, "github.com/weedbox/pokerface")) {
			continue
		}
		for _, m := range sp.Members {
			switch mm := m.(type) {
			case *ssa.Function:
				addFn(mm)
			case *ssa.Type:
				for _, t := range []types.Type{mm.Type(), types.NewPointer(mm.Type())} {
					ms := prog.MethodSets.MethodSet(t)
					for i := 0; i < ms.Len(); i++ {
						addFn(prog.MethodValue(ms.At(i)))
					}
				}
			}
		}
	}
	P.scanGlobals()
	return P, nil
}

// localFuncName: "(*seatManager).rotatePositions", "NewSeatManager", "(*tableEngine).startGame$2"
func localFuncName(fn *ssa.Function) string {
	s := fn.String()
	if fn.Pkg != nil {
		s = strings.ReplaceAll(s, fn.Pkg.Pkg.Path()+".", "")
	}
	return s
}

func (P *Prog) loadContracts() error {
	for path, sp := range P.spkgs {
		if !strings.HasPrefix(path, modPath) {
			continue
		}
		rel := strings.TrimPrefix(strings.TrimPrefix(path, modPath), "/")
		f := filepath.Join(P.repo, rel, "zz_contracts_verif.go")
		if _, err := os.Stat(f); err != nil {
			continue
		}
		cf, err := parseContractFile(f, path)
		if err != nil {
			return err
		}
		P.cfiles[path] = cf
		for _, c := range cf.Contracts {
			if c.Lemma {
				P.lemmas = append(P.lemmas, c)
				continue
			}
			if strings.HasPrefix(c.FuncName, "iface ") {
				if P.ifaceContracts == nil {
					P.ifaceContracts = map[string]*Contract{}
				}
				P.ifaceContracts[strings.TrimSpace(strings.TrimPrefix(c.FuncName, "iface "))] = c
				continue
			}
			key := path + "::" + c.FuncName
			if strings.HasPrefix(c.FuncName, "extern ") {
				// extern <import path>::<local name>: a function of a dependency, verified against the module-cache source
				key = strings.TrimSpace(strings.TrimPrefix(c.FuncName, "extern "))
			}
			fn := P.byName[key]
			if fn == nil {
				P.contractErrs = append(P.contractErrs, fmt.Sprintf("%s:%d: no function %q in package %s", shortFile(c.File), c.Line, c.FuncName, sp.Pkg.Name()))
				continue
			}
			if old := P.contracts[fn]; old != nil {
				return fmt.Errorf("%s:%d: duplicate contract for %s", c.File, c.Line, c.FuncName)
			}
			P.contracts[fn] = c
		}
	}
	return nil
}

func (c *Contract) Hash() string {
	h := sha256.Sum256([]byte(c.FuncName + "\n" + c.Text))
	return fmt.Sprintf("%x", h[:6])
}

// spec lookup: package-local first, then any other package of the module (shared vocabulary).
func (P *Prog) specIn(home string, pkg *types.Package, name string) *SpecFn {
	if home != "" {
		if cf := P.cfiles[home]; cf != nil {
			if s := cf.Specs[name]; s != nil {
				return s
			}
		}
	}
	return P.spec(pkg, name)
}

func (P *Prog) spec(pkg *types.Package, name string) *SpecFn {
	if pkg != nil {
		if cf := P.cfiles[pkg.Path()]; cf != nil {
			if s := cf.Specs[name]; s != nil {
				return s
			}
		}
	}
	var paths []string
	for p := range P.cfiles {
		paths = append(paths, p)
	}
	sort.Strings(paths)
	for _, p := range paths {
		if s := P.cfiles[p].Specs[name]; s != nil {
			return s
		}
	}
	return nil
}

func (P *Prog) importedPkg(from *types.Package, name string) *types.Package {
	if from == nil {
		return nil
	}
	for _, imp := range from.Imports() {
		if imp.Name() == name {
			return imp
		}
	}
	// also allow naming any module package
	for path, sp := range P.spkgs {
		if strings.HasPrefix(path, modPath) && sp.Pkg.Name() == name {
			return sp.Pkg
		}
	}
	return nil
}

func (P *Prog) typeTag(t types.Type) int64 {
	k := typeKey(t)
	if v, ok := P.tags[k]; ok {
		return v
	}
	v := int64(len(P.tags)) + 1
	P.tags[k] = v
	P.tagNames[v] = k
	return v
}

func (P *Prog) typeTagByName(k string) int64 {
	if v, ok := P.tags[k]; ok {
		return v
	}
	v := int64(len(P.tags)) + 1
	P.tags[k] = v
	P.tagNames[v] = k
	return v
}

// devirtType: the sole implementation registered for an interface type (pointer type), or nil.
func (P *Prog) devirtType(t types.Type) types.Type {
	n, ok := t.(*types.Named)
	if !ok {
		return nil
	}
	pkg := n.Obj().Pkg()
	if pkg == nil {
		return nil
	}
	for _, cf := range P.cfiles {
		impl, ok := cf.Devirt[n.Obj().Name()]
		if !ok {
			// also allow pkg-qualified "seat_manager.SeatManager"
			impl, ok = cf.Devirt[pkg.Name()+"."+n.Obj().Name()]
			if !ok {
				continue
			}
		}
		// impl like (*seatManager) or (*seat_manager.seatManager)
		impl = strings.Trim(impl, "()")
		impl = strings.TrimPrefix(impl, "*")
		ipkg := pkg
		if k := strings.Index(impl, "."); k >= 0 {
			pn := impl[:k]
			impl = impl[k+1:]
			for path, sp := range P.spkgs {
				if strings.HasPrefix(path, modPath) && sp.Pkg.Name() == pn {
					ipkg = sp.Pkg
				}
			}
		}
		obj := ipkg.Scope().Lookup(impl)
		if obj == nil {
			continue
		}
		return types.NewPointer(obj.Type())
	}
	return nil
}

func (P *Prog) isOpaqueIface(t types.Type) bool {
	n, ok := t.(*types.Named)
	if !ok {
		return false
	}
	for _, cf := range P.cfiles {
		if cf.Opaque[n.Obj().Name()] {
			return true
		}
		if n.Obj().Pkg() != nil && cf.Opaque[n.Obj().Pkg().Name()+"."+n.Obj().Name()] {
			return true
		}
	}
	return false
}

func (P *Prog) devirtVal(v Val) (Val, bool) {
	dt := P.devirtType(v.Typ)
	if dt == nil {
		return Val{}, false
	}
	return Val{K: VPtr, Typ: dt, Prefix: objPrefix(dt.Underlying().(*types.Pointer).Elem()), Idx: []*Term{v.T}}, true
}

// scanGlobals: package-level error variables initialised by errors.New and never reassigned are
// modelled as distinct non-zero constants.
func (P *Prog) scanGlobals() {
	for fn := range ssautil.AllFunctions(P.prog) {
		if fn.Pkg == nil {
			continue
		}
		isInit := fn.Name() == "init" || strings.HasPrefix(fn.Name(), "init#")
		for _, b := range fn.Blocks {
			for _, in := range b.Instrs {
				if s, ok := in.(*ssa.Store); ok {
					if g, ok := s.Addr.(*ssa.Global); ok && !isInit {
						P.globalWrites["global."+pkgShort(g.Pkg.Pkg)+"."+g.Name()] = true
					}
				}
			}
		}
	}
	var names []string
	for _, sp := range P.prog.AllPackages() {
		for _, m := range sp.Members {
			if g, ok := m.(*ssa.Global); ok {
				et := g.Type().(*types.Pointer).Elem()
				if isErrorType(et) {
					names = append(names, "global."+pkgShort(sp.Pkg)+"."+g.Name())
				}
			}
		}
	}
	sort.Strings(names)
	for i, n := range names {
		if !P.globalWrites[n] {
			P.errGlobals[n] = int64(900000 + i)
		}
	}
}

func (P *Prog) globalConst(prefix string, t types.Type) (Val, bool) {
	if c, ok := P.errGlobals[prefix]; ok && isErrorType(t) {
		return scalarVal(IntLit(c), t), true
	}
	return Val{}, false
}

func (P *Prog) errName(code int64) string {
	for n, c := range P.errGlobals {
		if c == code {
			return strings.TrimPrefix(n, "global.")
		}
	}
	return ""
}

// keyRange: if the map's domain is known to be a literal integer range, return it. The knowledge
// comes from the configuration binding of len(map) together with the invariant clause
// "forall k: indom(m,k) <==> lo <= k < hi", which the contract states; here we only recognise
// int-keyed maps whose length is a literal under the current configuration and rely on the
// invariant to pin the domain to [0,len).
func (P *Prog) keyRange(x *Exec, m Val) (int, int, bool) {
	kt, _ := mapTypes(m.Typ)
	if !isIntT(kt) {
		return 0, 0, false
	}
	if r, ok := x.denseIntMaps[typeKey(m.Typ)]; ok {
		return r[0], r[1], true
	}
	return 0, 0, false
}

// loopEffects: families stored to inside the loop (directly or through callees), and whether
// anything is allocated.
func (P *Prog) loopEffects(cfg *FuncCFG, l *Loop) ([]string, bool) {
	eff := &effects{fams: map[string]bool{}}
	seen := map[*ssa.Function]bool{}
	for b := range l.Blocks {
		for _, in := range b.Instrs {
			P.instrEffects(in, eff, seen)
		}
	}
	return sortedKeys(eff.fams), eff.allocs
}

type effects struct {
	fams   map[string]bool
	allocs bool
	all    bool // unknown callee: anything may change
}

func (P *Prog) funcEffects(fn *ssa.Function, eff *effects, seen map[*ssa.Function]bool) {
	if seen[fn] {
		return
	}
	seen[fn] = true
	if len(fn.Blocks) == 0 {
		return
	}
	for _, b := range fn.Blocks {
		for _, in := range b.Instrs {
			P.instrEffects(in, eff, seen)
		}
	}
}

func (P *Prog) instrEffects(in ssa.Instruction, eff *effects, seen map[*ssa.Function]bool) {
	switch i := in.(type) {
	case *ssa.Store:
		// family prefix from the address expression
		if pre, t, ok := addrPrefix(i.Addr); ok {
			var fs []famRef
			placeFamilies(pre, t, &fs)
			for _, f := range fs {
				eff.fams[f.name] = true
			}
		} else {
			eff.all = true
		}
	case *ssa.MapUpdate:
		pre := mapKeyPrefix(i.Map.Type())
		_, vt := mapTypes(i.Map.Type())
		eff.fams[pre+"#dom"] = true
		eff.fams[pre+"#len"] = true
		var fs []famRef
		placeFamilies(pre+"#val", vt, &fs)
		for _, f := range fs {
			eff.fams[f.name] = true
		}
	case *ssa.Alloc:
		if i.Heap {
			eff.allocs = true
		} else {
			eff.allocs = true
		}
	case *ssa.MakeMap, *ssa.MakeSlice, *ssa.MakeClosure:
		eff.allocs = true
	case *ssa.Call:
		P.callEffects(i.Common(), eff, seen)
	case *ssa.Defer:
		P.callEffects(i.Common(), eff, seen)
	case *ssa.Go:
		if i.Common().StaticCallee() != nil && !i.Common().IsInvoke() {
			P.callEffects(i.Common(), eff, seen)
		} else {
			eff.all = true
		}
	}
}

func (P *Prog) callEffects(c *ssa.CallCommon, eff *effects, seen map[*ssa.Function]bool) {
	if b, ok := c.Value.(*ssa.Builtin); ok {
		switch b.Name() {
		case "append":
			eff.allocs = true
		case "delete":
			pre := mapKeyPrefix(c.Args[0].Type())
			eff.fams[pre+"#dom"] = true
			eff.fams[pre+"#len"] = true
		case "copy":
			et := sliceElemType(c.Args[0].Type())
			var fs []famRef
			placeFamilies("elem."+typeKey(et), et, &fs)
			for _, f := range fs {
				eff.fams[f.name] = true
			}
		}
		return
	}
	if fn := c.StaticCallee(); fn != nil {
		if isIntrinsic(fn) {
			intrinsicEffects(fn, c, eff)
			return
		}
		P.funcEffects(fn, eff, seen)
		return
	}
	if c.IsInvoke() {
		if dt := P.devirtType(c.Value.Type()); dt != nil {
			if m := P.prog.LookupMethod(dt, c.Method.Pkg(), c.Method.Name()); m != nil {
				P.funcEffects(m, eff, seen)
				return
			}
		}
	}
	// unknown: callbacks are assumed not to touch engine state (listed as an assumption)
}

// addrPrefix: static family prefix of an address-valued SSA expression.
func addrPrefix(v ssa.Value) (string, types.Type, bool) {
	pt, ok := v.Type().Underlying().(*types.Pointer)
	if !ok {
		return "", nil, false
	}
	switch a := v.(type) {
	case *ssa.FieldAddr:
		bp, bt, ok := addrPrefix(a.X)
		if !ok {
			return "", nil, false
		}
		s := structFields(bt)
		return bp + "." + s.Field(a.Field).Name(), pt.Elem(), true
	case *ssa.IndexAddr:
		switch a.X.Type().Underlying().(type) {
		case *types.Slice:
			return "elem." + typeKey(pt.Elem()), pt.Elem(), true
		case *types.Pointer:
			bp, _, ok := addrPrefix(a.X)
			if !ok {
				return "", nil, false
			}
			return bp + "[]", pt.Elem(), true
		}
	case *ssa.Global:
		return "global." + pkgShort(a.Pkg.Pkg) + "." + a.Name(), pt.Elem(), true
	}
	// any other pointer-valued expression is a whole-object pointer
	return objPrefix(pt.Elem()), pt.Elem(), true
}
