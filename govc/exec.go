package main

import (
	"fmt"
	"go/constant"
	"go/token"
	"go/types"
	"math/big"
	"sort"
	"strings"

	"golang.org/x/tools/go/ssa"
)

type State struct {
	pc     *Term
	env    map[ssa.Value]Val
	heap   *Heap
	alloc  *Term
	defers []*ssa.Defer
}

func (s *State) clone() *State {
	n := &State{pc: s.pc, heap: s.heap.Clone(), alloc: s.alloc}
	n.env = make(map[ssa.Value]Val, len(s.env))
	for k, v := range s.env {
		n.env[k] = v
	}
	n.defers = append([]*ssa.Defer{}, s.defers...)
	return n
}

type edgeState struct {
	from *ssa.BasicBlock
	st   *State
}

type retState struct {
	st      *State
	results []Val
}

type Obligation struct {
	Name   string
	Group  string // name without the split suffix
	Func   string
	Props  []string
	Kind   string
	Config string
	Hyps   []*Term
	Goal   *Term
	Cover  bool   // expect sat
	Note   string // human description
	SMT    string
	// results
	Status     string // unsat sat unknown timeout error
	Solver     string
	Time       float64
	Model      string
	Watch      []WatchTerm // named terms whose model values are requested (replay / debugging)
	fn         *ssa.Function
	M          int
	funs       map[string]string // signature table of the term store the terms live in
	file       string            // query file (assigned on first use)
	FProp      string            // finding queries: the property the recorded finding belongs to
	fewSolvers bool              // recorded as slow in the baseline: tried with the first two solvers only
}

type Exec struct {
	topRets      []retState // return states of the function under verification (before merging)
	P            *Prog
	fn           *ssa.Function
	contract     *Contract
	cfgVar       string
	cfgVal       int
	hasCfg       bool
	obls         []*Obligation
	hyps         []*Term
	depth        int
	oldHeap      *Heap
	alloc0       *Term
	params       map[string]Val
	checks       map[string]bool
	trusted      map[string]bool // names of trusted models / assumptions used
	safetyN      map[string]int
	logArity     int
	curFn        []*ssa.Function
	denseIntMaps map[string][2]int
	callN        map[string]int
	muted        bool
	cfgSuffix    string
	splitVals    map[string]int
	guards       []activeGuard
	curBind      []Val
	initSeen     map[int]bool
	safetySeen   map[int][]*Term
	watch        []WatchTerm
	evalExprs    []string
}

func (x *Exec) trust(s string) { x.trusted[s] = true }

func (x *Exec) assume(st *State, t *Term) {
	g := Implies(st.pc, t)
	if g.IsTrue() {
		return
	}
	x.hyps = append(x.hyps, g)
}

func (x *Exec) assumeGlobal(t *Term) {
	if t.IsTrue() {
		return
	}
	x.hyps = append(x.hyps, t)
}

func (x *Exec) oblige(st *State, kind, label string, goal *Term, note string) {
	if x.muted {
		return
	}
	g := Implies(st.pc, goal)
	if g.IsTrue() {
		return
	}
	name := fmt.Sprintf("%s/%s:%s", x.funcDisplayName(), kind, label)
	if x.hasCfg {
		name += fmt.Sprintf("@%s=%d", x.cfgVar, x.cfgVal)
	}
	name += x.cfgSuffix
	hy := make([]*Term, len(x.hyps))
	copy(hy, x.hyps)
	parts := x.unknownConjuncts(goal)
	if len(parts) == 0 {
		return
	}
	mk := func(nm string, g *Term) {
		o := &Obligation{Name: nm, Group: name, Func: x.funcDisplayName(), Kind: kind, Hyps: hy, Goal: g, Note: note, Watch: x.watch, fn: x.fn}
		if x.hasCfg {
			o.M = x.cfgVal
		}
		if x.hasCfg {
			o.Config = fmt.Sprintf("%s=%d", x.cfgVar, x.cfgVal)
		}
		if x.contract != nil {
			o.Props = x.contract.Props
		}
		x.obls = append(x.obls, o)
	}
	if len(parts) > 1 && len(parts) <= 400 && (kind == "ensures" || kind == "callpre" || kind == "inv-entry" || kind == "inv-preserve" || kind == "assert") {
		// split a conjunctive goal: one small query per conjunct (they are discharged in parallel)
		for k, p := range parts {
			g := Implies(st.pc, p)
			if g.IsTrue() {
				continue
			}
			mk(fmt.Sprintf("%s%%%d", name, k), g)
		}
		return
	}
	g = Implies(st.pc, And(parts...))
	if g.IsTrue() {
		return
	}
	mk(name, g)
}

func (x *Exec) cover(st *State, label string) {
	if x.muted {
		return
	}
	name := fmt.Sprintf("%s/cover:%s", x.funcDisplayName(), label)
	if x.hasCfg {
		name += fmt.Sprintf("@%s=%d", x.cfgVar, x.cfgVal)
	}
	name += x.cfgSuffix
	hy := make([]*Term, len(x.hyps)+1)
	copy(hy, x.hyps)
	hy[len(x.hyps)] = st.pc
	o := &Obligation{Name: name, Func: x.funcDisplayName(), Kind: "cover", Hyps: hy, Goal: nil, Cover: true}
	if x.contract != nil {
		o.Props = x.contract.Props
	}
	x.obls = append(x.obls, o)
}

func (x *Exec) safety(st *State, instr ssa.Instruction, kind string, goal *Term) {
	if !x.checks[kind] {
		return
	}
	if Implies(st.pc, goal).IsTrue() {
		return
	}
	// already established under a weaker path condition?
	if x.safetySeen == nil {
		x.safetySeen = map[int][]*Term{}
	}
	cur := conjSet(st.pc)
	for _, old := range x.safetySeen[goal.id] {
		sub := true
		for id := range conjSet(old) {
			if !cur[id] {
				sub = false
				break
			}
		}
		if sub {
			return
		}
	}
	x.safetySeen[goal.id] = append(x.safetySeen[goal.id], st.pc)
	pos := x.P.prog.Fset.Position(instr.Pos())
	// name: kind + enclosing function + ordinal (positions shift with edits; ordinals keep names compact)
	fnName := shortFuncName(instr.Parent())
	key := kind + "@" + fnName
	x.safetyN[key]++
	label := fmt.Sprintf("%s#%d", key, x.safetyN[key])
	x.oblige(st, "safety", label, goal, fmt.Sprintf("%s at %s:%d", kind, shortFile(pos.Filename), pos.Line))
	x.assume(st, goal)
}

func shortFile(f string) string {
	if i := strings.LastIndex(f, "/"); i >= 0 {
		return f[i+1:]
	}
	return f
}

func (x *Exec) funcDisplayName() string { return shortFuncName(x.fn) }

func shortFuncName(fn *ssa.Function) string {
	if fn == nil {
		return "?"
	}
	s := fn.String() // e.g. (*github.com/weedbox/pokertable/seat_manager.seatManager).nextOccupiedSeatID
	s = strings.ReplaceAll(s, "github.com/weedbox/pokertable/", "")
	s = strings.ReplaceAll(s, "github.com/weedbox/", "")
	return s
}

// ---------- values ----------

func constVal(c *ssa.Const) Val {
	t := c.Type()
	if c.Value == nil {
		return zeroVal(t)
	}
	switch c.Value.Kind() {
	case constant.Bool:
		return scalarVal(BoolLit(constant.BoolVal(c.Value)), t)
	case constant.String:
		return scalarVal(strCode(constant.StringVal(c.Value)), t)
	case constant.Int:
		if isFloat(t) {
			f, _ := constant.Float64Val(c.Value)
			return scalarVal(RealLit(fmt.Sprintf("%f", f)), t)
		}
		if v, ok := constant.Int64Val(c.Value); ok {
			return scalarVal(IntLit(v), t)
		}
		bi, _ := constantBig(c.Value)
		return scalarVal(BigLit(bi), t)
	case constant.Float:
		if isIntT(t) {
			v, _ := constant.Int64Val(constant.ToInt(c.Value))
			return scalarVal(IntLit(v), t)
		}
		f, _ := constant.Float64Val(c.Value)
		return scalarVal(RealLit(fmt.Sprintf("%f", f)), t)
	}
	unsupported("constant %v", c)
	return Val{}
}

func (x *Exec) get(st *State, v ssa.Value) Val {
	switch c := v.(type) {
	case *ssa.Const:
		return constVal(c)
	case *ssa.Global:
		return x.globalPtr(c)
	case *ssa.Function:
		return Val{K: VFunc, Typ: c.Type(), Fn: c, T: strCode("func:" + c.String())}
	case *ssa.Builtin:
		return Val{K: VOpaque, Typ: c.Type()}
	}
	if val, ok := st.env[v]; ok {
		return val
	}
	unsupported("value %s (%T) not in environment of %s", v.Name(), v, shortFuncName(x.fn))
	return Val{}
}

func (x *Exec) globalPtr(g *ssa.Global) Val {
	pt := g.Type().(*types.Pointer)
	return Val{K: VPtr, Typ: pt, Prefix: "global." + pkgShort(g.Pkg.Pkg) + "." + g.Name(), Idx: nil}
}

// fresh allocation of an object of type t, zero-initialised.
func (x *Exec) allocObj(st *State, t types.Type) Val {
	ref := st.alloc
	st.alloc = Add(st.alloc, IntLit(1))
	p := Place{objPrefix(t), []*Term{ref}}
	storePlace(st.heap, p, t, zeroVal(t))
	initLocks(st.heap, p, t)
	return Val{K: VPtr, Typ: types.NewPointer(t), Prefix: p.Prefix, Idx: p.Idx}
}

func (x *Exec) freshRef(st *State) *Term {
	ref := st.alloc
	st.alloc = Add(st.alloc, IntLit(1))
	return ref
}

// initialRefs: a reference read from the initial heap (a select on an "@0" base family) denotes an
// object that existed before the function started, hence lies below alloc0.
func (x *Exec) initialRefs(t *Term, depth int) {
	if depth > 12 || x.alloc0 == nil {
		return
	}
	switch t.op {
	case "app":
		if strings.HasSuffix(t.name, "@0") {
			if x.initSeen == nil {
				x.initSeen = map[int]bool{}
			}
			if !x.initSeen[t.id] {
				x.initSeen[t.id] = true
				if !mentionsBound(t) {
					fact := And(Le(IntLit(0), t), Lt(t, x.alloc0))
					if len(t.args) > 0 && t.args[0].sort == SInt {
						// only cells of objects that existed at entry hold entry-time references
						fact = Implies(Lt(t.args[0], x.alloc0), fact)
					}
					x.assumeGlobal(fact)
				}
			}
		}
	case "ite":
		x.initialRefs(t.args[1], depth+1)
		x.initialRefs(t.args[2], depth+1)
	}
}

// assume refs loaded from memory are already allocated
func (x *Exec) noteLoaded(st *State, v Val) {
	switch v.K {
	case VPtr:
		if len(v.Idx) == 1 && !v.Idx[0].IsLit() {
			x.assume(st, And(Le(IntLit(0), v.Idx[0]), Lt(v.Idx[0], st.alloc)))
			x.initialRefs(v.Idx[0], 0)
		}
	case VMap, VIface:
		if v.T != nil && !v.T.IsLit() {
			x.assume(st, And(Le(IntLit(0), v.T), Lt(v.T, st.alloc)))
			x.initialRefs(v.T, 0)
		}
	case VSlice:
		if !v.Arr.IsLit() {
			x.assume(st, And(Le(IntLit(0), v.Arr), Lt(v.Arr, st.alloc), Le(IntLit(0), v.Off), Le(IntLit(0), v.Len)))
			x.assume(st, Implies(Eq(v.Arr, IntLit(0)), Eq(v.Len, IntLit(0))))
			x.initialRefs(v.Arr, 0)
		}
	case VStruct:
		for _, f := range v.Fields {
			x.noteLoaded(st, f)
		}
	}
}

// ---------- slices / maps helpers ----------

func sliceElemType(t types.Type) types.Type {
	switch u := t.Underlying().(type) {
	case *types.Slice:
		return u.Elem()
	case *types.Array:
		return u.Elem()
	case *types.Pointer:
		if a, ok := u.Elem().Underlying().(*types.Array); ok {
			return a.Elem()
		}
	}
	unsupported("element type of %v", t)
	return nil
}

func elemPlace(s Val, i *Term) Place {
	et := sliceElemType(s.Typ)
	return Place{"elem." + typeKey(et), []*Term{s.Arr, Add(s.Off, i)}}
}

func mapTypes(t types.Type) (types.Type, types.Type) {
	m := t.Underlying().(*types.Map)
	return m.Key(), m.Elem()
}

func mapKeyPrefix(t types.Type) string {
	k, v := mapTypes(t)
	return "map." + typeKey(k) + "." + typeKey(v)
}

func mapDom(h *Heap, m Val, k *Term) *Term {
	return h.Get(mapKeyPrefix(m.Typ)+"#dom", 2, SBool).Select([]*Term{m.T, k})
}

func mapLen(h *Heap, m Val) *Term {
	return h.Get(mapKeyPrefix(m.Typ)+"#len", 1, SInt).Select([]*Term{m.T})
}

func mapValPlace(m Val, k *Term) Place {
	return Place{mapKeyPrefix(m.Typ) + "#val", []*Term{m.T, k}}
}

func keyTerm(v Val) *Term {
	if v.K != VScalar {
		unsupported("map key of kind %d", v.K)
	}
	if v.T.sort != SInt {
		unsupported("map key of sort %v", v.T.sort)
	}
	return v.T
}

// ---------- running a function body ----------

// runBody executes fn from state st (whose env already binds parameters and free variables).
// It returns the merged state at function exit together with the merged results.
func (x *Exec) runBody(fn *ssa.Function, st *State) (*State, []Val) {
	if len(fn.Blocks) == 0 {
		unsupported("function %s has no body", fn.String())
	}
	x.curFn = append(x.curFn, fn)
	defer func() { x.curFn = x.curFn[:len(x.curFn)-1] }()
	cfg := getCFG(fn)
	var rets []retState
	entries := map[*ssa.BasicBlock][]edgeState{fn.Blocks[0]: {{nil, st}}}
	exits := x.runRegion(cfg, nil, entries, &rets)
	if len(exits) != 0 {
		panic("internal: top region has exits")
	}
	if len(x.curFn) == 1 {
		x.topRets = rets
	}
	if len(rets) == 0 {
		// no reachable return
		dead := st.clone()
		dead.pc = False()
		var rs []Val
		res := fn.Signature.Results()
		for i := 0; i < res.Len(); i++ {
			rs = append(rs, zeroVal(res.At(i).Type()))
		}
		return dead, rs
	}
	// merge returns
	out := rets[len(rets)-1].st
	results := rets[len(rets)-1].results
	for i := len(rets) - 2; i >= 0; i-- {
		r := rets[i]
		c := r.st.pc
		nr := make([]Val, len(results))
		for k := range results {
			nr[k] = valIte(c, r.results[k], results[k])
		}
		results = nr
		out = mergeStates(c, r.st, out)
	}
	return out, results
}

func mergeStates(c *Term, a, b *State) *State {
	// result behaves as a when c holds, else b; pc = a.pc or b.pc
	n := &State{pc: Or(a.pc, b.pc)}
	n.heap = MergeHeaps(c, a.heap, b.heap)
	n.alloc = Ite(c, a.alloc, b.alloc)
	n.env = make(map[ssa.Value]Val, len(a.env))
	for k, va := range a.env {
		if vb, ok := b.env[k]; ok {
			n.env[k] = mergeVal(c, va, vb)
		} else {
			n.env[k] = va
		}
	}
	for k, vb := range b.env {
		if _, ok := a.env[k]; !ok {
			n.env[k] = vb
		}
	}
	n.defers = a.defers
	if len(b.defers) > len(a.defers) {
		n.defers = b.defers
	}
	return n
}

func mergeVal(c *Term, a, b Val) (out Val) {
	defer func() {
		if r := recover(); r != nil {
			if _, ok := r.(UnsupportedError); ok {
				// values that cannot be merged become opaque; using them later is an error
				out = Val{K: VOpaque, Typ: a.Typ}
				return
			}
			panic(r)
		}
	}()
	return valIte(c, a, b)
}

// runRegion executes the blocks of a region (the whole function when loop == nil, else one
// iteration of the loop body starting at its header). entries: edge states arriving at blocks
// of the region. Returns edge states leaving the region keyed by target block. Back edges to
// the region's own header are returned under the header key.
func (x *Exec) runRegion(cfg *FuncCFG, loop *Loop, entries map[*ssa.BasicBlock][]edgeState, rets *[]retState) map[*ssa.BasicBlock][]edgeState {
	pending := map[*ssa.BasicBlock][]edgeState{}
	for b, es := range entries {
		pending[b] = append(pending[b], es...)
	}
	exits := map[*ssa.BasicBlock][]edgeState{}
	inRegion := func(b *ssa.BasicBlock) bool { return loop == nil || loop.Blocks[b] }
	route := func(from, to *ssa.BasicBlock, st *State) {
		if st.pc.IsFalse() {
			return
		}
		if loop != nil && to == loop.Header {
			exits[to] = append(exits[to], edgeState{from, st})
			return
		}
		if inRegion(to) {
			pending[to] = append(pending[to], edgeState{from, st})
		} else {
			exits[to] = append(exits[to], edgeState{from, st})
		}
	}
	blocks := cfg.blocksOf(loop)
	skip := map[*ssa.BasicBlock]bool{}
	first := true
	for _, b := range blocks {
		if skip[b] {
			continue
		}
		es := pending[b]
		delete(pending, b)
		// child loop header?
		if l := cfg.headerOf[b]; l != nil && l != loop && !(loop != nil && b == loop.Header) {
			for blk := range l.Blocks {
				skip[blk] = true
			}
			if len(es) == 0 {
				continue
			}
			lexits := x.runLoop(cfg, l, es, rets)
			for t, ees := range lexits {
				for _, e := range ees {
					route(e.from, t, e.st)
				}
			}
			continue
		}
		if len(es) == 0 {
			first = false
			continue
		}
		_ = first
		st := x.mergeAt(b, es)
		x.execBlock(cfg, b, st, route, rets)
	}
	return exits
}

// mergeAt merges incoming edge states at block b and evaluates its phis.
func (x *Exec) mergeAt(b *ssa.BasicBlock, es []edgeState) *State {
	// evaluate phis per edge first
	var phis []*ssa.Phi
	for _, in := range b.Instrs {
		if p, ok := in.(*ssa.Phi); ok {
			phis = append(phis, p)
		} else {
			break
		}
	}
	phiVals := make([][]Val, len(es))
	for i, e := range es {
		if len(phis) == 0 {
			break
		}
		if e.from == nil {
			// synthetic entry: the state already binds the phis
			for _, p := range phis {
				phiVals[i] = append(phiVals[i], e.st.env[p])
			}
			continue
		}
		idx := -1
		for k, p := range b.Preds {
			if p == e.from {
				idx = k
				break
			}
		}
		if idx < 0 {
			panic("internal: edge from non-predecessor")
		}
		for _, p := range phis {
			phiVals[i] = append(phiVals[i], x.get(e.st, p.Edges[idx]))
		}
	}
	out := es[len(es)-1].st
	var pv []Val
	if len(phis) > 0 {
		pv = phiVals[len(es)-1]
	}
	for i := len(es) - 2; i >= 0; i-- {
		c := es[i].st.pc
		if len(phis) > 0 {
			npv := make([]Val, len(phis))
			for k := range phis {
				npv[k] = mergeVal(c, phiVals[i][k], pv[k])
			}
			pv = npv
		}
		out = mergeStates(c, es[i].st, out)
	}
	if len(es) == 1 {
		out = out.clone()
	}
	for k, p := range phis {
		out.env[p] = pv[k]
	}
	return out
}

func (x *Exec) execBlock(cfg *FuncCFG, b *ssa.BasicBlock, st *State, route func(from, to *ssa.BasicBlock, st *State), rets *[]retState) {
	for _, in := range b.Instrs {
		switch i := in.(type) {
		case *ssa.Phi:
			continue
		case *ssa.If:
			cv := x.get(st, i.Cond)
			c := cv.T
			t := st.clone()
			t.pc = And(st.pc, c)
			f := st
			f.pc = And(st.pc, Not(c))
			route(b, b.Succs[0], t)
			route(b, b.Succs[1], f)
			return
		case *ssa.Jump:
			route(b, b.Succs[0], st)
			return
		case *ssa.Return:
			var rs []Val
			for _, r := range i.Results {
				rs = append(rs, x.get(st, r))
			}
			*rets = append(*rets, retState{st, rs})
			return
		case *ssa.Panic:
			x.safety(st, in, "panic", False())
			return
		default:
			x.step(st, in)
			if st.pc.IsFalse() {
				return
			}
		}
	}
}

// ---------- loops ----------

func (x *Exec) loopSpec(l *Loop, fn *ssa.Function) *LoopSpec {
	c := x.P.contracts[fn]
	if c == nil {
		return nil
	}
	return c.Loops[l.Ordinal]
}

func (x *Exec) runLoop(cfg *FuncCFG, l *Loop, entry []edgeState, rets *[]retState) map[*ssa.BasicBlock][]edgeState {
	spec := x.loopSpec(l, cfg.fn)
	if spec != nil && len(spec.Invariants) > 0 {
		return x.runLoopInvariant(cfg, l, spec, entry, rets)
	}
	bound := 12
	if x.hasCfg {
		bound = x.cfgVal + 2
	}
	if spec != nil && spec.Unroll != nil {
		ce := x.newCEnv(entry[0].st)
		v := ce.eval(spec.Unroll)
		n, ok := v.T.IntVal()
		if !ok {
			unsupported("loop %d of %s: unroll bound %s is not a literal under this configuration", l.Ordinal, shortFuncName(cfg.fn), spec.Unroll)
		}
		bound = int(n)
	}
	if spec != nil && spec.MapOrder == "asc" {
		x.setupAscending(cfg, l, entry)
	}
	allExits := map[*ssa.BasicBlock][]edgeState{}
	cur := entry
	for iter := 0; ; iter++ {
		live := false
		for _, e := range cur {
			if !e.st.pc.IsFalse() {
				live = true
			}
		}
		if !live {
			break
		}
		if iter > bound {
			// unwinding assertion: no path takes the back edge once more
			var pcs []*Term
			for _, e := range cur {
				pcs = append(pcs, e.st.pc)
			}
			st := cur[0].st.clone()
			st.pc = True()
			x.oblige(st, "unwind", fmt.Sprintf("%s.loop%d", shortFuncName(cfg.fn), l.Ordinal), Not(Or(pcs...)),
				fmt.Sprintf("loop %d of %s needs at most %d iterations", l.Ordinal, shortFuncName(cfg.fn), bound))
			break
		}
		ex := x.runRegion(cfg, l, map[*ssa.BasicBlock][]edgeState{l.Header: cur}, rets)
		cur = nil
		for t, ees := range ex {
			if t == l.Header {
				cur = append(cur, ees...)
			} else {
				allExits[t] = append(allExits[t], ees...)
			}
		}
	}
	return allExits
}

// runLoopInvariant: classic cut-point rule.
func (x *Exec) runLoopInvariant(cfg *FuncCFG, l *Loop, spec *LoopSpec, entry []edgeState, rets *[]retState) map[*ssa.BasicBlock][]edgeState {
	fnName := shortFuncName(cfg.fn)
	st0 := x.mergeAt(l.Header, entry)
	nameEnv := func(st *State) map[string]Val {
		m := map[string]Val{}
		for _, in := range l.Header.Instrs {
			if p, ok := in.(*ssa.Phi); ok {
				if p.Comment != "" {
					m[p.Comment] = st.env[p]
				}
			}
		}
		return m
	}
	evalInv := func(st *State, c *Clause) *Term {
		ce := x.newCEnv(st)
		for k, v := range nameEnv(st) {
			ce.vars[k] = v
		}
		return ce.evalBool(c.Expr)
	}
	for i, c := range spec.Invariants {
		lbl := c.Label
		if lbl == "" {
			lbl = fmt.Sprint(i)
		}
		x.oblige(st0, "inv-entry", fmt.Sprintf("%s.loop%d.%s", fnName, l.Ordinal, lbl), evalInv(st0, c), c.Text)
	}
	// havoc loop targets: header phis and families written in the loop
	sth := st0.clone()
	for _, in := range l.Header.Instrs {
		if p, ok := in.(*ssa.Phi); ok {
			sth.env[p] = freshVal(p.Type(), "loop."+p.Comment)
			x.noteLoaded(sth, sth.env[p])
		}
	}
	written, allocs := x.P.loopEffects(cfg, l)
	// Havoc precisely: a written family keeps its loop-entry contents except (a) at the locations of
	// the function's modifies clause and (b) at objects allocated since the function started. That
	// nothing else changes per iteration is checked at every back edge (loopframe obligations).
	var flocs []hloc
	if c := x.P.contracts[cfg.fn]; c != nil && c.HasMod && cfg.fn == x.fn {
		ce0 := x.newCEnv(st0)
		flocs = x.modifiesLocs(ce0, c)
	} else {
		flocs = nil
	}
	preciseFrame := x.P.contracts[cfg.fn] != nil && x.P.contracts[cfg.fn].HasMod && cfg.fn == x.fn
	writtenSet := map[string]bool{}
	for _, fam := range written {
		fi, ok := famReg[fam]
		if !ok {
			continue
		}
		writtenSet[fam] = true
		if !preciseFrame {
			sth.heap.Set(fam, freshBase(fam+"!loop", fi.arity, fi.sort))
			continue
		}
		node := sth.heap.Get(fam, fi.arity, fi.sort)
		if fi.arity > 0 {
			node = node.Overlay(freshBase(fam+"!loopnew", fi.arity, fi.sort), x.alloc0)
		}
		sth.heap.Set(fam, node)
		for _, hl := range flocs {
			if hl.fam == fam {
				hl.apply(sth.heap)
			}
		}
	}
	headHeap := sth.heap.Clone()
	if allocs {
		na := FreshVar("alloc.loop", SInt)
		x.assume(sth, Ge(na, sth.alloc))
		sth.alloc = na
	}
	for _, c := range spec.Invariants {
		x.assume(sth, evalInv(sth, c))
	}
	var dec0 *Term
	if spec.Decreases != nil {
		ce := x.newCEnv(sth)
		for k, v := range nameEnv(sth) {
			ce.vars[k] = v
		}
		dec0 = ce.eval(spec.Decreases).T
	}
	ex := x.runRegion(cfg, l, map[*ssa.BasicBlock][]edgeState{l.Header: {{nil, sth}}}, rets)
	out := map[*ssa.BasicBlock][]edgeState{}
	for t, ees := range ex {
		if t != l.Header {
			out[t] = append(out[t], ees...)
			continue
		}
		for _, e := range ees {
			stb := x.mergeAt(l.Header, []edgeState{e})
			if preciseFrame {
				x.frameAgainst(stb, headHeap, flocs, "loopframe", fmt.Sprintf("%s.loop%d.", fnName, l.Ordinal), writtenSet)
			}
			for i, c := range spec.Invariants {
				lbl := c.Label
				if lbl == "" {
					lbl = fmt.Sprint(i)
				}
				x.oblige(stb, "inv-preserve", fmt.Sprintf("%s.loop%d.%s", fnName, l.Ordinal, lbl), evalInv(stb, c), c.Text)
			}
			if dec0 != nil {
				ce := x.newCEnv(stb)
				for k, v := range nameEnv(stb) {
					ce.vars[k] = v
				}
				d1 := ce.eval(spec.Decreases).T
				x.oblige(stb, "decreases", fmt.Sprintf("%s.loop%d", fnName, l.Ordinal), And(Lt(d1, dec0), Ge(dec0, IntLit(0))), spec.Decreases.String())
			}
		}
	}
	return out
}

// mergeAt with a nil 'from' (synthetic header entry) must not evaluate phis: handled by caller
// (runLoopInvariant passes states whose env already binds the phis).

// ---------- instruction semantics ----------

func (x *Exec) step(st *State, in ssa.Instruction) {
	memCheck(x)
	switch i := in.(type) {
	case *ssa.Alloc:
		st.env[i] = x.allocObj(st, i.Type().(*types.Pointer).Elem())
	case *ssa.FieldAddr:
		p := x.get(st, i.X)
		pt := p.Typ.Underlying().(*types.Pointer)
		s := structFields(pt.Elem())
		f := s.Field(i.Field)
		if len(p.Idx) == 1 && p.Prefix == objPrefix(pt.Elem()) {
			x.safety(st, in, "nil", Neq(p.Idx[0], IntLit(0)))
		}
		pl := ptrPlace(p).field(f.Name())
		if detachable(i) {
			// &local.field of struct type, stored as an object pointer, where the local (an escaped copy of a
			// by-value parameter or variable) is never accessed through this field again: the field is moved
			// into an object of its own (Go semantics: the pointer keeps the enclosing variable alive; no one
			// else can observe the difference because every other access to the field happens before)
			ft := f.Type()
			cur := loadPlace(st.heap, pl, ft)
			obj := x.allocObj(st, ft)
			storePlace(st.heap, ptrPlace(obj), ft, cur)
			obj.Typ = i.Type()
			st.env[i] = obj
			break
		}
		st.env[i] = Val{K: VPtr, Typ: i.Type(), Prefix: pl.Prefix, Idx: pl.Idx}
	case *ssa.Field:
		sv := x.get(st, i.X)
		if sv.K != VStruct {
			unsupported("field of non-struct value")
		}
		st.env[i] = sv.Fields[i.Field]
	case *ssa.IndexAddr:
		xv := x.get(st, i.X)
		iv := x.get(st, i.Index).T
		switch xv.K {
		case VSlice:
			x.safety(st, in, "bounds", And(Le(IntLit(0), iv), Lt(iv, xv.Len)))
			pl := elemPlace(xv, iv)
			st.env[i] = Val{K: VPtr, Typ: i.Type(), Prefix: pl.Prefix, Idx: pl.Idx}
		case VPtr: // pointer to array
			at := xv.Typ.Underlying().(*types.Pointer).Elem().Underlying().(*types.Array)
			x.safety(st, in, "bounds", And(Le(IntLit(0), iv), Lt(iv, IntLit(at.Len()))))
			pl := ptrPlace(xv).elem(iv)
			st.env[i] = Val{K: VPtr, Typ: i.Type(), Prefix: pl.Prefix, Idx: pl.Idx}
		default:
			unsupported("IndexAddr on kind %d", xv.K)
		}
	case *ssa.Index:
		xv := x.get(st, i.X)
		iv := x.get(st, i.Index).T
		if xv.K == VStruct { // array value
			n, ok := iv.IntVal()
			if !ok {
				unsupported("symbolic index into array value")
			}
			st.env[i] = xv.Fields[n]
		} else {
			unsupported("Index on kind %d", xv.K)
		}
	case *ssa.UnOp:
		x.unop(st, i)
	case *ssa.BinOp:
		st.env[i] = x.binop(st, i, i.Op, x.get(st, i.X), x.get(st, i.Y), i.Type())
	case *ssa.Store:
		p := x.get(st, i.Addr)
		v := x.get(st, i.Val)
		x.guardCheck(st, in, p.Prefix)
		et := p.Typ.Underlying().(*types.Pointer).Elem()
		if n, ok := et.(*types.Named); ok && n.Obj().Pkg() != nil && n.Obj().Pkg().Path() == "sync" && n.Obj().Name() == "Map" {
			// assignment of a sync.Map value: only the zero value can be written down in Go (sync.Map{}),
			// copying a used one is a vet error; the ghost map of the place becomes empty
			if c, isConst := i.Val.(*ssa.Const); !isConst || c.Value != nil {
				unsupported("copy of a sync.Map value")
			}
			pl := ptrPlace(p)
			if len(pl.Idx) != 1 {
				unsupported("sync.Map assignment to a nested place")
			}
			dom := st.heap.Get(pl.Prefix+"#smdom", 2, SBool)
			st.heap.Set(pl.Prefix+"#smdom", dom.RowConst(pl.Idx[0], False()))
			break
		}
		storePlace(st.heap, ptrPlace(p), et, x.convIface(v, et))
	case *ssa.Lookup:
		x.lookup(st, i)
	case *ssa.MapUpdate:
		m := x.get(st, i.Map)
		k := keyTerm(x.get(st, i.Key))
		v := x.get(st, i.Value)
		x.safety(st, in, "nilmap", Neq(m.T, IntLit(0)))
		x.guardCheck(st, in, mapKeyPrefix(m.Typ))
		x.mapStore(st, m, k, v)
	case *ssa.MakeMap:
		ref := x.freshRef(st)
		m := Val{K: VMap, Typ: i.Type(), T: ref}
		pre := mapKeyPrefix(i.Type())
		st.heap.Set(pre+"#dom", st.heap.Get(pre+"#dom", 2, SBool).RowConst(ref, False()))
		st.heap.Set(pre+"#len", st.heap.Get(pre+"#len", 1, SInt).Store([]*Term{ref}, IntLit(0)))
		st.env[i] = m
	case *ssa.MakeSlice:
		ref := x.freshRef(st)
		n := x.get(st, i.Len).T
		x.safety(st, in, "bounds", Ge(n, IntLit(0)))
		sv := Val{K: VSlice, Typ: i.Type(), Arr: ref, Off: IntLit(0), Len: n}
		x.zeroRow(st, sv)
		st.env[i] = sv
	case *ssa.Slice:
		x.sliceOp(st, i)
	case *ssa.Extract:
		t := x.get(st, i.Tuple)
		if t.K != VTuple {
			unsupported("extract from non-tuple")
		}
		st.env[i] = t.Fields[i.Index]
	case *ssa.MakeInterface:
		v := x.get(st, i.X)
		st.env[i] = x.makeIface(v, i.X.Type(), i.Type())
	case *ssa.ChangeInterface:
		v := x.get(st, i.X)
		if v.K == VScalar && isErrorType(i.X.Type()) && !isErrorType(i.Type()) {
			// error (a scalar code in this model) widened to any / another interface: wrap it
			st.env[i] = Val{K: VIface, Typ: i.Type(), Tag: IntLit(x.P.typeTag(i.X.Type())), T: v.T, Fields: []Val{v}}
			break
		}
		v.Typ = i.Type()
		st.env[i] = v
	case *ssa.ChangeType:
		v := x.get(st, i.X)
		v.Typ = i.Type()
		st.env[i] = v
	case *ssa.Convert:
		st.env[i] = x.convert(st, x.get(st, i.X), i.X.Type(), i.Type())
	case *ssa.TypeAssert:
		x.typeAssert(st, i)
	case *ssa.MakeClosure:
		fn := i.Fn.(*ssa.Function)
		cv := Val{K: VFunc, Typ: i.Type(), Fn: fn, T: x.freshRef(st)}
		for _, b := range i.Bindings {
			cv.Bind = append(cv.Bind, x.get(st, b))
		}
		st.env[i] = cv
	case *ssa.Range:
		xv := x.get(st, i.X)
		if xv.K != VMap {
			unsupported("range over %v", i.X.Type())
		}
		st.env[i] = Val{K: VIter, Iter: &mapIter{m: xv, lenAt: mapLen(st.heap, xv)}}
	case *ssa.Next:
		x.next(st, i)
	case *ssa.Call:
		res := x.call(st, i, i.Common())
		st.env[i] = res
	case *ssa.Defer:
		st.defers = append(st.defers, i)
	case *ssa.RunDefers:
		ds := st.defers
		for k := len(ds) - 1; k >= 0; k-- {
			x.call(st, ds[k], ds[k].Common())
		}
	case *ssa.MakeChan:
		// channels are never operated on by verified code (send/receive sit in trusted functions)
		st.env[i] = Val{K: VOpaque, Typ: i.Type()}
	case *ssa.Go:
		// "go f(args)" with a static callee: modelled as an immediate call (the call happens, with these
		// arguments; when, and on which goroutine, is outside the model). Only what the callee does
		// to the ghost call log / heap in program order is claimed. Listed as an assumption.
		if i.Common().StaticCallee() == nil || i.Common().IsInvoke() {
			unsupported("go statement with a dynamic callee in %s", shortFuncName(in.Parent()))
		}
		x.trust("go statement in " + shortFuncName(in.Parent()) + " modelled as an immediate call of " + shortFuncName(i.Common().StaticCallee()) + " (scheduling not modelled)")
		x.call(st, i, i.Common())
	case *ssa.DebugRef:
	default:
		unsupported("instruction %T in %s", in, shortFuncName(in.Parent()))
	}
}

func (x *Exec) checkMoved(p Val) {}

func (x *Exec) zeroRow(st *State, sv Val) {
	et := sliceElemType(sv.Typ)
	var fams []famRef
	placeFamilies("elem."+typeKey(et), et, &fams)
	for _, f := range fams {
		st.heap.Set(f.name, st.heap.Get(f.name, 2, f.sort).RowConst(sv.Arr, zeroTerm(f.sort)))
	}
}

func (x *Exec) convIface(v Val, target types.Type) Val {
	return v
}

func (x *Exec) unop(st *State, i *ssa.UnOp) {
	v := x.get(st, i.X)
	switch i.Op {
	case token.MUL: // load
		x.guardCheck(st, i, v.Prefix)
		pt := v.Typ.Underlying().(*types.Pointer)
		if len(v.Idx) == 1 && v.Prefix == objPrefix(pt.Elem()) {
			x.safety(st, i, "nil", Neq(v.Idx[0], IntLit(0)))
		}
		if strings.HasPrefix(v.Prefix, "global.") {
			if gv, ok := x.P.globalConst(v.Prefix, pt.Elem()); ok {
				st.env[i] = gv
				return
			}
		}
		lv := loadPlace(st.heap, ptrPlace(v), pt.Elem())
		x.noteLoaded(st, lv)
		st.env[i] = lv
	case token.NOT:
		st.env[i] = scalarVal(Not(v.T), i.Type())
	case token.SUB:
		st.env[i] = scalarVal(Neg(v.T), i.Type())
	case token.ARROW:
		unsupported("channel receive")
	default:
		unsupported("unary operator %v", i.Op)
	}
}

func (x *Exec) binop(st *State, in ssa.Instruction, op token.Token, a, b Val, rt types.Type) Val {
	switch op {
	case token.EQL:
		return scalarVal(x.eqVals(a, b), rt)
	case token.NEQ:
		return scalarVal(Not(x.eqVals(a, b)), rt)
	}
	if a.K != VScalar || b.K != VScalar {
		unsupported("binary %v on non-scalar values", op)
	}
	if isStringT(a.Typ) && op == token.ADD {
		return scalarVal(App("str.concat", SInt, a.T, b.T), rt)
	}
	switch op {
	case token.ADD:
		return scalarVal(Add(a.T, b.T), rt)
	case token.SUB:
		return scalarVal(Sub(a.T, b.T), rt)
	case token.MUL:
		return scalarVal(Mul(a.T, b.T), rt)
	case token.QUO:
		if a.T.sort == SInt {
			x.safety(st, in, "div", Neq(b.T, IntLit(0)))
		}
		return scalarVal(GoDiv(a.T, b.T), rt)
	case token.REM:
		x.safety(st, in, "div", Neq(b.T, IntLit(0)))
		return scalarVal(GoMod(a.T, b.T), rt)
	case token.LSS:
		return scalarVal(Lt(a.T, b.T), rt)
	case token.LEQ:
		return scalarVal(Le(a.T, b.T), rt)
	case token.GTR:
		return scalarVal(Gt(a.T, b.T), rt)
	case token.GEQ:
		return scalarVal(Ge(a.T, b.T), rt)
	case token.LAND, token.AND:
		if a.T.sort == SBool {
			return scalarVal(And(a.T, b.T), rt)
		}
	case token.LOR, token.OR:
		if a.T.sort == SBool {
			return scalarVal(Or(a.T, b.T), rt)
		}
	}
	unsupported("binary operator %v", op)
	return Val{}
}

func (x *Exec) eqVals(a, b Val) *Term {
	// interface vs concrete comparisons: errors are scalars; other interfaces by (tag, ref)
	if a.K == VScalar && b.K == VScalar && a.T.sort != b.T.sort {
		unsupported("comparison of different sorts")
	}
	return valEq(a, b)
}

func (x *Exec) lookup(st *State, i *ssa.Lookup) {
	m := x.get(st, i.X)
	if m.K != VMap {
		unsupported("lookup on %v (string indexing)", i.X.Type())
	}
	x.guardCheck(st, i, mapKeyPrefix(m.Typ))
	k := keyTerm(x.get(st, i.Index))
	_, vt := mapTypes(m.Typ)
	dom := mapDom(st.heap, m, k)
	raw := loadPlace(st.heap, mapValPlace(m, k), vt)
	x.noteLoaded(st, raw)
	v := valIte(dom, raw, zeroVal(vt))
	if i.CommaOk {
		st.env[i] = Val{K: VTuple, Fields: []Val{v, scalarVal(dom, types.Typ[types.Bool])}}
	} else {
		st.env[i] = v
	}
}

func (x *Exec) mapStore(st *State, m Val, k *Term, v Val) {
	pre := mapKeyPrefix(m.Typ)
	_, vt := mapTypes(m.Typ)
	dom := st.heap.Get(pre+"#dom", 2, SBool)
	had := dom.Select([]*Term{m.T, k})
	st.heap.Set(pre+"#dom", dom.Store([]*Term{m.T, k}, True()))
	ln := st.heap.Get(pre+"#len", 1, SInt)
	old := ln.Select([]*Term{m.T})
	st.heap.Set(pre+"#len", ln.Store([]*Term{m.T}, Ite(had, old, Add(old, IntLit(1)))))
	storePlace(st.heap, mapValPlace(m, k), vt, v)
}

func (x *Exec) mapDelete(st *State, m Val, k *Term) {
	pre := mapKeyPrefix(m.Typ)
	dom := st.heap.Get(pre+"#dom", 2, SBool)
	had := dom.Select([]*Term{m.T, k})
	st.heap.Set(pre+"#dom", dom.Store([]*Term{m.T, k}, False()))
	ln := st.heap.Get(pre+"#len", 1, SInt)
	old := ln.Select([]*Term{m.T})
	st.heap.Set(pre+"#len", ln.Store([]*Term{m.T}, Ite(had, Sub(old, IntLit(1)), old)))
}

func (x *Exec) sliceOp(st *State, i *ssa.Slice) {
	xv := x.get(st, i.X)
	var lo, hi *Term
	if i.Low != nil {
		lo = x.get(st, i.Low).T
	} else {
		lo = IntLit(0)
	}
	switch xv.K {
	case VSlice:
		if i.High != nil {
			hi = x.get(st, i.High).T
		} else {
			hi = xv.Len
		}
		// Go allows hi up to cap; capacity is not modelled, so require hi <= len (stricter; listed)
		x.safety(st, i, "bounds", And(Le(IntLit(0), lo), Le(lo, hi), Le(hi, xv.Len)))
		st.env[i] = Val{K: VSlice, Typ: i.Type(), Arr: xv.Arr, Off: Add(xv.Off, lo), Len: Sub(hi, lo)}
	case VPtr: // pointer to array -> slice
		at := xv.Typ.Underlying().(*types.Pointer).Elem().Underlying().(*types.Array)
		if i.High != nil {
			hi = x.get(st, i.High).T
		} else {
			hi = IntLit(at.Len())
		}
		x.safety(st, i, "bounds", And(Le(IntLit(0), lo), Le(lo, hi), Le(hi, IntLit(at.Len()))))
		// array cells live in family prefix+"[]" indexed [ref, i]; a slice over them uses elem.<T>.
		// Copy the array row into a fresh slice row (arrays converted to slices are literals here).
		ref := x.freshRef(st)
		et := at.Elem()
		var src, dst []famRef
		placeFamilies(xv.Prefix+"[]", et, &src)
		placeFamilies("elem."+typeKey(et), et, &dst)
		if len(xv.Idx) != 1 {
			unsupported("slice of nested array")
		}
		for k := range src {
			s := st.heap.Get(src[k].name, 2, src[k].sort)
			d := st.heap.Get(dst[k].name, 2, dst[k].sort)
			st.heap.Set(dst[k].name, d.RowCopy(ref, s, xv.Idx[0]))
		}
		x.trust("array-to-slice conversion copies (the array is not used again afterwards)")
		st.env[i] = Val{K: VSlice, Typ: i.Type(), Arr: ref, Off: lo, Len: Sub(hi, lo)}
	default:
		unsupported("slice of %v", i.X.Type())
	}
}

func (x *Exec) makeIface(v Val, from, to types.Type) Val {
	if isErrorType(to) {
		if v.K == VScalar {
			return scalarVal(v.T, to)
		}
		if v.K == VPtr && len(v.Idx) == 1 {
			return scalarVal(v.Idx[0], to)
		}
		unsupported("conversion of %v to error", from)
	}
	tag := x.P.typeTag(from)
	switch v.K {
	case VPtr:
		if len(v.Idx) == 1 {
			return Val{K: VIface, Typ: to, Tag: IntLit(tag), T: v.Idx[0], Fields: []Val{v}}
		}
	case VScalar:
		if v.T.sort == SInt {
			return Val{K: VIface, Typ: to, Tag: IntLit(tag), T: v.T, Fields: []Val{v}}
		}
	}
	// anything else boxed into interface{} (fmt arguments): payload kept only structurally
	return Val{K: VIface, Typ: to, Tag: IntLit(tag), T: IntLit(0), Fields: []Val{v}}
}

func (x *Exec) typeAssert(st *State, i *ssa.TypeAssert) {
	v := x.get(st, i.X)
	if v.K != VIface {
		unsupported("type assertion on non-interface")
	}
	if _, ok := i.AssertedType.Underlying().(*types.Interface); ok {
		// interface-to-interface assertion: keep the dynamic value
		nv := v
		nv.Typ = i.AssertedType
		if i.CommaOk {
			st.env[i] = Val{K: VTuple, Fields: []Val{nv, scalarVal(Neq(v.Tag, IntLit(0)), types.Typ[types.Bool])}}
		} else {
			x.safety(st, i, "typeassert", Neq(v.Tag, IntLit(0)))
			st.env[i] = nv
		}
		return
	}
	tag := x.P.typeTag(i.AssertedType)
	ok := Eq(v.Tag, IntLit(tag))
	var out Val
	if len(v.Fields) == 1 && types.Identical(v.Fields[0].Typ, i.AssertedType) {
		out = v.Fields[0]
	} else {
		switch kindOf(i.AssertedType) {
		case VPtr:
			out = Val{K: VPtr, Typ: i.AssertedType, Prefix: objPrefix(i.AssertedType.Underlying().(*types.Pointer).Elem()), Idx: []*Term{v.T}}
		case VScalar:
			out = scalarVal(v.T, i.AssertedType)
		default:
			unsupported("type assertion to %v", i.AssertedType)
		}
	}
	if i.CommaOk {
		st.env[i] = Val{K: VTuple, Fields: []Val{out, scalarVal(ok, types.Typ[types.Bool])}}
	} else {
		x.safety(st, i, "typeassert", ok)
		st.env[i] = out
	}
}

func (x *Exec) convert(st *State, v Val, from, to types.Type) Val {
	if v.K == VScalar {
		fs, ts := sortOfType(from), sortOfType(to)
		if isStringT(to) && !isStringT(from) {
			unsupported("conversion %v -> string", from)
		}
		if fs == ts {
			return scalarVal(v.T, to)
		}
		if fs == SInt && ts == SReal {
			return scalarVal(ToReal(v.T), to)
		}
		if fs == SReal && ts == SInt {
			return scalarVal(ToInt(v.T), to)
		}
	}
	if v.K == VSlice && isStringT(to) {
		return scalarVal(FreshVar("str.conv", SInt), to)
	}
	if v.K == VScalar && kindOf(to) == VSlice {
		// []byte(string): opaque contents
		return Val{K: VSlice, Typ: to, Arr: x.freshRef(st), Off: IntLit(0), Len: FreshVar("bytes.len", SInt)}
	}
	unsupported("conversion %v -> %v", from, to)
	return Val{}
}

// next: one step of a map iteration. Keys are visited in an arbitrary order: iteration n yields a
// fresh key in the domain, different from all earlier ones; the loop ends after len(m) steps and at
// that point every key of the domain has been produced.
func (x *Exec) next(st *State, i *ssa.Next) {
	itv := x.get(st, i.Iter)
	if itv.K != VIter {
		unsupported("next on non-iterator")
	}
	it := itv.Iter
	m := it.m
	kt, vt := mapTypes(m.Typ)
	x.guardCheck(st, i, mapKeyPrefix(m.Typ))
	n := it.n
	it.n++
	if it.forced != nil || it.asc {
		var ok, key *Term
		if it.forced != nil {
			if n < len(it.forced) {
				ok, key = True(), it.forced[n]
			} else {
				ok, key = False(), IntLit(0)
			}
		} else {
			if it.lo+n < it.hi {
				ok, key = True(), IntLit(int64(it.lo+n))
			} else {
				ok, key = False(), IntLit(0)
			}
		}
		val := loadPlace(st.heap, mapValPlace(m, key), vt)
		x.noteLoaded(st, val)
		st.env[i] = Val{K: VTuple, Fields: []Val{scalarVal(ok, types.Typ[types.Bool]), scalarVal(key, kt), val}}
		return
	}
	ok := Lt(IntLit(int64(n)), it.lenAt)
	key := FreshVar(fmt.Sprintf("key%d", n), SInt)
	stOk := &State{pc: And(st.pc, ok), heap: st.heap, alloc: st.alloc}
	x.assume(stOk, mapDom(st.heap, m, key))
	if lo, hi, dense := x.P.keyRange(x, m); dense {
		// finite-cardinality lemma: a map of length hi-lo that contains lo..hi-1 has no other key
		x.assume(stOk, And(Le(IntLit(int64(lo)), key), Lt(key, IntLit(int64(hi)))))
		x.trust("finite-cardinality lemma: a map of length n containing the keys 0..n-1 has no other key (premises are in the precondition, see config-cover)")
	}
	for _, k := range it.keys {
		x.assume(stOk, Neq(key, k))
	}
	if x.P.ascendingMaps {
		for _, k := range it.keys {
			x.assume(stOk, Lt(k, key))
		}
	}
	it.keys = append(it.keys, key)
	// exhaustion: when the iteration stops (n == len), all keys seen so far are the whole domain
	stEnd := &State{pc: And(st.pc, Not(ok)), heap: st.heap, alloc: st.alloc}
	done := it.keys[:len(it.keys)-1]
	qv := FreshVar("anykey", SInt)
	var alts []*Term
	for _, k := range done {
		alts = append(alts, Eq(qv, k))
	}
	x.mapExhaust(stEnd, m, done)
	_ = qv
	_ = alts
	val := loadPlace(st.heap, mapValPlace(m, key), vt)
	x.noteLoaded(st, val)
	st.env[i] = Val{K: VTuple, Fields: []Val{scalarVal(ok, types.Typ[types.Bool]), scalarVal(key, kt), val}}
}

// mapExhaust records "dom(m) ⊆ keys" for a finished iteration. For int-keyed maps whose domain
// is known to lie in a literal range the fact is instantiated per key; otherwise as a quantifier.
func (x *Exec) mapExhaust(st *State, m Val, keys []*Term) {
	if st.pc.IsFalse() {
		return
	}
	q := Var(fmt.Sprintf("k!ex%d", len(x.hyps)), SInt)
	var alts []*Term
	for _, k := range keys {
		alts = append(alts, Eq(q, k))
	}
	body := Implies(mapDom(st.heap, m, q), Or(alts...))
	// try finite instantiation when the contract declares the key range of this map type
	if lo, hi, ok := x.P.keyRange(x, m); ok {
		for v := lo; v < hi; v++ {
			var as []*Term
			for _, k := range keys {
				as = append(as, Eq(IntLit(int64(v)), k))
			}
			x.assume(st, Implies(mapDom(st.heap, m, IntLit(int64(v))), Or(as...)))
		}
		return
	}
	x.assume(st, Forall(q, body))
}

// sorted family names helper
func sortedKeys(m map[string]bool) []string {
	var ks []string
	for k := range m {
		ks = append(ks, k)
	}
	sort.Strings(ks)
	return ks
}

func constantBig(v constant.Value) (*big.Int, bool) {
	s := v.ExactString()
	b, ok := new(big.Int).SetString(s, 10)
	return b, ok
}

// setupAscending: iterate an int-keyed map with a literal dense domain in ascending key order.
// This is sound only when the loop body commutes for distinct keys and has no early exit; both
// are established by the "commute" obligation generated here.
func (x *Exec) setupAscending(cfg *FuncCFG, l *Loop, entry []edgeState) {
	fnName := shortFuncName(cfg.fn)
	var nx *ssa.Next
	for _, in := range l.Header.Instrs {
		if n, ok := in.(*ssa.Next); ok {
			nx = n
		}
	}
	if nx == nil {
		unsupported("loop %d of %s: maporder asc on a loop that is not a map range", l.Ordinal, fnName)
	}
	itv, ok := entry[0].st.env[nx.Iter]
	if !ok || itv.K != VIter {
		unsupported("loop %d of %s: iterator not found", l.Ordinal, fnName)
	}
	it := itv.Iter
	lo, hi, dense := x.P.keyRange(x, it.m)
	if !dense {
		unsupported("loop %d of %s: maporder asc needs a map whose length is bound by the configuration", l.Ordinal, fnName)
	}
	// ---- commutativity lemma ----
	st0 := x.mergeAt(l.Header, entry)
	sth := st0.clone()
	for _, in := range l.Header.Instrs {
		if p, ok := in.(*ssa.Phi); ok {
			sth.env[p] = freshVal(p.Type(), "cm."+p.Comment)
			x.noteLoaded(sth, sth.env[p])
		}
	}
	written, _ := x.P.loopEffects(cfg, l)
	for _, fam := range written {
		if fi, ok := famReg[fam]; ok {
			sth.heap.Set(fam, freshBase(fam+"!cm", fi.arity, fi.sort))
		}
	}
	a, b := FreshVar("cm.a", SInt), FreshVar("cm.b", SInt)
	x.assume(sth, And(Le(IntLit(int64(lo)), a), Lt(a, IntLit(int64(hi))), Le(IntLit(int64(lo)), b), Lt(b, IntLit(int64(hi))), Neq(a, b)))
	run := func(keys []*Term) *State {
		s := sth.clone()
		s.env[nx.Iter] = Val{K: VIter, Iter: &mapIter{m: it.m, lenAt: it.lenAt, forced: keys}}
		cur := []edgeState{{nil, s}}
		for k := 0; k < 2; k++ {
			var rets []retState
			ex := x.runRegion(cfg, l, map[*ssa.BasicBlock][]edgeState{l.Header: cur}, &rets)
			if len(rets) > 0 {
				unsupported("loop %d of %s: maporder asc on a loop that returns from its body", l.Ordinal, fnName)
			}
			cur = nil
			for t, ees := range ex {
				if t == l.Header {
					cur = append(cur, ees...)
					continue
				}
				for _, e := range ees {
					if !e.st.pc.IsFalse() {
						unsupported("loop %d of %s: maporder asc on a loop with an early exit", l.Ordinal, fnName)
					}
				}
			}
			if len(cur) == 0 {
				unsupported("loop %d of %s: body does not reach the back edge", l.Ordinal, fnName)
			}
			if k == 1 {
				return x.mergeAt(l.Header, cur)
			}
		}
		return nil
	}
	save := x.muted
	x.muted = true
	s1 := run([]*Term{a, b})
	s2 := run([]*Term{b, a})
	x.muted = save
	goal := True()
	for _, in := range l.Header.Instrs {
		if p, ok := in.(*ssa.Phi); ok {
			v1, v2 := s1.env[p], s2.env[p]
			if v1.K == VOpaque || v2.K == VOpaque {
				continue
			}
			goal = And(goal, valEq(v1, v2))
		}
	}
	names := map[string]bool{}
	for _, n := range s1.heap.Names() {
		names[n] = true
	}
	for _, n := range s2.heap.Names() {
		names[n] = true
	}
	for _, n := range sortedKeys(names) {
		fi := famReg[n]
		f1 := s1.heap.Get(n, fi.arity, fi.sort)
		f2 := s2.heap.Get(n, fi.arity, fi.sort)
		if f1 == f2 {
			continue
		}
		idx := make([]*Term, fi.arity)
		for i := range idx {
			idx[i] = FreshVar("cm.i", SInt)
		}
		goal = And(goal, Eq(f1.Select(idx), f2.Select(idx)))
	}
	x.oblige(sth, "commute", fmt.Sprintf("%s.loop%d", fnName, l.Ordinal), goal, "map-range body commutes for distinct keys (justifies ascending iteration order)")
	it.asc = true
	it.lo, it.hi = lo, hi
}

// dropKnownConjuncts removes from a conjunctive goal the conjuncts that are literally among the
// unconditional hypotheses (typically the unchanged part of an invariant).
func (x *Exec) unknownConjuncts(goal *Term) []*Term {
	known := map[int]bool{}
	for _, h := range x.hyps {
		if h.op == "and" {
			for _, a := range h.args {
				known[a.id] = true
			}
		} else {
			known[h.id] = true
		}
	}
	var parts []*Term
	var split func(pre []*Term, g *Term, depth int)
	split = func(pre []*Term, g *Term, depth int) {
		if len(pre) == 0 && known[g.id] {
			return
		}
		switch {
		case g.op == "and" && depth < 4:
			for _, a := range g.args {
				split(pre, a, depth+1)
			}
		case g.op == "=>" && g.args[1].op == "and" && depth < 4:
			np := append(append([]*Term{}, pre...), g.args[0])
			for _, a := range g.args[1].args {
				split(np, a, depth+1)
			}
		default:
			if len(pre) == 0 && known[g.id] {
				return
			}
			t := Implies(And(pre...), g)
			if !t.IsTrue() {
				parts = append(parts, t)
			}
		}
	}
	split(nil, goal, 0)
	return parts
}

func (x *Exec) dropKnownConjuncts(pc, goal *Term) *Term {
	known := map[int]bool{}
	for _, h := range x.hyps {
		if h.op == "and" {
			for _, a := range h.args {
				known[a.id] = true
			}
		} else {
			known[h.id] = true
		}
	}
	var parts []*Term
	if goal.op == "and" {
		for _, a := range goal.args {
			if !known[a.id] {
				parts = append(parts, a)
			}
		}
	} else if !known[goal.id] {
		parts = append(parts, goal)
	}
	return Implies(pc, And(parts...))
}

// initLocks: mutexes inside a freshly allocated object start unlocked.
func initLocks(h *Heap, p Place, t types.Type) {
	if isSyncType(t) {
		f := h.Get(p.Prefix+"#held", len(p.Idx), SBool)
		h.Set(p.Prefix+"#held", f.Store(p.Idx, False()))
		if n, ok := t.(*types.Named); ok && n.Obj().Name() == "Map" && n.Obj().Pkg().Path() == "sync" && len(p.Idx) == 1 {
			// the zero sync.Map of a fresh object is empty (go/ssa elides the store of a zero composite literal)
			dom := h.Get(p.Prefix+"#smdom", 2, SBool)
			h.Set(p.Prefix+"#smdom", dom.RowConst(p.Idx[0], False()))
		}
		return
	}
	if s := structFields(t); s != nil && kindOf(t) == VStruct {
		if _, isArr := t.Underlying().(*types.Array); isArr {
			return
		}
		for i := 0; i < s.NumFields(); i++ {
			ft := s.Field(i).Type()
			if isSyncType(ft) || (kindOf(ft) == VStruct && structFields(ft) != nil) {
				initLocks(h, p.field(s.Field(i).Name()), ft)
			}
		}
	}
}

func conjSet(t *Term) map[int]bool {
	m := map[int]bool{}
	if t.IsTrue() {
		return m
	}
	if t.op == "and" {
		for _, a := range t.args {
			m[a.id] = true
		}
	} else {
		m[t.id] = true
	}
	return m
}

// mentionsBound: does the term mention a quantifier-bound variable (named name!qN)?
func mentionsBound(t *Term) bool {
	seen := map[int]bool{}
	var rec func(t *Term) bool
	rec = func(t *Term) bool {
		if seen[t.id] {
			return false
		}
		seen[t.id] = true
		if t.op == "var" && strings.Contains(t.name, "!q") {
			return true
		}
		for _, a := range t.args {
			if rec(a) {
				return true
			}
		}
		return false
	}
	return rec(t)
}

type activeGuard struct {
	fam      string // ghost family holding the held flag
	idx      []*Term
	prefixes []string
	text     string
}

// guardCheck: an access to a family protected by a lock must happen while that lock is held.
func (x *Exec) guardCheck(st *State, in ssa.Instruction, fam string) {
	for _, g := range x.guards {
		for _, p := range g.prefixes {
			if strings.HasPrefix(fam, p) {
				held := st.heap.Get(g.fam, len(g.idx), SBool).Select(g.idx)
				x.safety(st, in, "lockset", held)
				return
			}
		}
	}
}

// detachable: fa = &X.f where X is a local allocation used only through field addresses, loads and
// whole-value stores, f has a (non-sync) struct type, fa is stored somewhere as a pointer value, and
// every other address-of of the same field of X is taken strictly before fa on every path
// (its block dominates fa's block).
func detachable(fa *ssa.FieldAddr) bool {
	al, ok := fa.X.(*ssa.Alloc)
	if !ok {
		return false
	}
	pt := al.Type().Underlying().(*types.Pointer)
	sf := structFields(pt.Elem())
	if sf == nil {
		return false
	}
	ft := sf.Field(fa.Field).Type()
	if _, isStruct := ft.Underlying().(*types.Struct); !isStruct || isSyncType(ft) {
		return false
	}
	escapes := false
	for _, r := range *fa.Referrers() {
		switch u := r.(type) {
		case *ssa.Store:
			if u.Val == fa {
				escapes = true
			}
		case *ssa.FieldAddr, *ssa.UnOp, *ssa.DebugRef:
		default:
			return false // passed to a call, converted, compared ...: not handled
		}
	}
	if !escapes {
		return false
	}
	for _, r := range *al.Referrers() {
		switch u := r.(type) {
		case *ssa.FieldAddr:
			if u == fa || u.Field != fa.Field {
				continue
			}
			if u.Block() == fa.Block() {
				before := false
				for _, in := range u.Block().Instrs {
					if in == u {
						before = true
						break
					}
					if in == fa {
						break
					}
				}
				if !before {
					return false
				}
			} else if !u.Block().Dominates(fa.Block()) {
				return false
			}
		case *ssa.Store:
			if u.Addr != al {
				return false
			}
		case *ssa.UnOp, *ssa.DebugRef:
			// whole-value load: would copy the field too; only allowed before fa
			if un, ok := u.(*ssa.UnOp); ok {
				if un.Block() != fa.Block() && !un.Block().Dominates(fa.Block()) {
					return false
				}
			}
		default:
			return false
		}
	}
	return true
}
