package main

import (
	"fmt"
	"go/types"
	"strings"

	"golang.org/x/tools/go/ssa"
)

type FuncResult struct {
	Fn       *ssa.Function
	Name     string
	Contract *Contract
	Config   string
	Obls     []*Obligation
	Err      string // generation failure
	Trusted  []string
	Loops    []string
	GenTime  float64
	Skipped  string
}

func resetGlobals() {
	resetTerms()
	resetFamilies()
	initialBases = map[string]*HNode{}
	quantCounter = 0
	cfgCacheReset()
}

func cfgCacheReset() {}

var defaultChecks = []string{"nil", "bounds", "div", "nilmap", "panic", "typeassert", "lock", "lockset", "onesection", "randarg", "copylen"}

// verifyFunc generates the obligations of one function under one configuration value.
var debugEvalExprs []string

func (P *Prog) verifyFunc(fn *ssa.Function, c *Contract, cfgVal int, hasCfg bool, extra ...int) (res *FuncResult) {
	resetGlobals()
	res = &FuncResult{Fn: fn, Name: shortFuncName(fn), Contract: c}
	x := &Exec{P: P, fn: fn, contract: c, trusted: map[string]bool{}, safetyN: map[string]int{}, checks: map[string]bool{},
		params: map[string]Val{}, denseIntMaps: map[string][2]int{}, callN: map[string]int{}}
	for _, k := range defaultChecks {
		x.checks[k] = true
	}
	if hasCfg {
		x.hasCfg = true
		x.cfgVar = c.Config.Var
		x.cfgVal = cfgVal
		res.Config = fmt.Sprintf("%s=%d", x.cfgVar, cfgVal)
	}
	for i, v := range extra {
		x.cfgSuffix += fmt.Sprintf(",%s=%d", c.Splits[i].Var, v)
		res.Config += fmt.Sprintf(",%s=%d", c.Splits[i].Var, v)
	}
	if !hasCfg && len(extra) > 0 {
		x.cfgSuffix = "@" + strings.TrimPrefix(x.cfgSuffix, ",")
	}
	defer func() {
		if r := recover(); r != nil {
			switch e := r.(type) {
			case UnsupportedError:
				res.Err = "unsupported: " + e.msg
			case CEvalError:
				res.Err = "contract error: " + e.msg
			case MemBudgetError:
				// the symbolic execution of this function outgrew the generator's memory budget: no obligation of
				// it can be claimed (reported like any other generation failure); drop what was built so far
				res.Err = "generator memory budget exceeded: " + e.msg
				x.obls = nil
				memRelease()
			default:
				panic(r)
			}
		}
		res.Obls = x.obls
		for _, o := range res.Obls {
			o.funs = TS.funs
		}
		for t := range x.trusted {
			res.Trusted = append(res.Trusted, t)
		}
	}()
	st := &State{pc: True(), env: map[ssa.Value]Val{}, heap: NewHeap()}
	x.alloc0 = Var("alloc0", SInt)
	refLoadedHook = func(t *Term) { x.initialRefs(t, 0) }
	defer func() { refLoadedHook = nil }()
	st.alloc = x.alloc0
	x.assumeGlobal(Ge(x.alloc0, IntLit(1)))
	for _, p := range fn.Params {
		v := namedVal(p.Type(), p.Name())
		st.env[p] = v
		x.params[p.Name()] = v
		x.noteLoaded(st, v)
	}
	for _, fv := range fn.FreeVars {
		v := namedVal(fv.Type(), fv.Name())
		st.env[fv] = v
		x.noteLoaded(st, v)
		if v.K == VPtr && len(v.Idx) == 1 {
			x.assumeGlobal(Neq(v.Idx[0], IntLit(0))) // a captured variable always has a cell
		}
		dv := x.derefCell(st, v)
		x.noteLoaded(st, dv)
		x.params[fv.Name()] = dv
	}
	// configuration coverage: the precondition implies that one of the configurations applies
	// (a contract marked partial declares that its configuration range does not exhaust the precondition;
	// callers that use it record that as an assumption)
	if hasCfg && c.Partial == "" && (cfgVal == c.Config.Lo || (quickTier && cfgVal == c.Config.QLo)) {
		x.configCover(st, c, res.Name)
	}
	// configuration bindings
	ce := x.newCEnv(st)
	if hasCfg {
		for _, b := range c.Config.Bindings {
			x.bindConfigValue(st, ce, b)
		}
	}
	// split variables: coverage obligation (first combination only), then binding
	if len(extra) > 0 {
		first := true
		for i, v := range extra {
			env := map[string]int{}
			if hasCfg {
				env[c.Config.Var] = cfgVal
			}
			for k := 0; k < i; k++ {
				env[c.Splits[k].Var] = extra[k]
			}
			if v != intEval(c.Splits[i].Lo, env) {
				first = false
			}
		}
		x.splitVals = map[string]int{}
		for i, v := range extra {
			x.splitVals[c.Splits[i].Var] = v
		}
		if first {
			x.splitCover(st, c, res.Name, cfgVal, hasCfg)
		}
		ce = x.newCEnv(st)
		for i, v := range extra {
			x.bindConfigValue(st, ce, ConfigBinding{c.Splits[i].LHS, &CExpr{Op: "int", Int: int64(v)}})
		}
	}
	x.oldHeap = st.heap.Clone()
	ce = x.newCEnv(st)
	ce.old = x.oldHeap
	// axioms of every contract file (package-level facts)
	for _, cf := range P.cfiles {
		for _, a := range cf.Axioms {
			ace := *ce
			ace.pkg = P.spkgs[cf.Pkg].Pkg
			// "len(G) == n" on a package-level slice binds the length to a literal
			if a.Expr.Op == "==" && a.Expr.Args[1].Op == "int" && a.Expr.Args[0].Op == "call" && a.Expr.Args[0].Args[0].Name == "len" {
				func() {
					defer func() { recover() }()
					x.bindConfigValue(st, &ace, ConfigBinding{a.Expr.Args[0], a.Expr.Args[1]})
					x.oldHeap = st.heap.Clone()
					ce.old = x.oldHeap
				}()
			}
			x.assumeGlobal(x.evalClause(&ace, a, "axiom"))
			x.trust("axiom (" + ace.pkg.Name() + "): " + a.Text)
		}
	}
	for _, l := range c.Lets {
		v := ce.eval(l.Expr)
		ce.vars[l.Name] = v
		x.params[l.Name] = v
	}
	for _, r := range c.Requires {
		x.assumeGlobal(x.evalClause(ce, r, res.Name))
	}
	x.cover(st, "requires")
	// lock discipline (C16): families that must only be touched while a mutex is held
	for _, g := range c.Guards {
		pl := ce.lvaluePlace(g.Lock)
		x.guards = append(x.guards, activeGuard{fam: pl.Prefix + "#held", idx: pl.Idx, prefixes: g.Prefixes, text: g.Text})
		// "released inside this function" starts false (see lockIntr: one critical section per guarded operation)
		rn := pl.Prefix + "#released"
		st.heap.Set(rn, st.heap.Get(rn, len(pl.Idx), SBool).Store(pl.Idx, False()))
	}
	// lemmas stated at entry: proved from the precondition, then available to everything that follows
	for ai, a := range c.Asserts {
		if a.Anchor != "entry" {
			continue
		}
		lbl := a.Clause.Label
		if lbl == "" {
			lbl = fmt.Sprint(ai)
		}
		g := x.evalClause(ce, a.Clause, res.Name)
		x.oblige(st, "assert", "entry."+lbl, g, "lemma at entry: "+a.Clause.Text)
		x.assumeGlobal(g)
	}
	// watch list available to every obligation: parameters and debugging expressions in the pre-state
	for _, p := range fn.Params {
		var fl []*Term
		flatten(x.params[p.Name()], &fl)
		for k, t := range fl {
			x.watch = append(x.watch, WatchTerm{fmt.Sprintf("%s#%d", p.Name(), k), t})
		}
	}
	for _, es := range debugEvalExprs {
		func() {
			defer func() { recover() }()
			e, err := parseCExpr(es)
			if err != nil {
				return
			}
			var fl []*Term
			flatten(ce.eval(e), &fl)
			for k, t := range fl {
				x.watch = append(x.watch, WatchTerm{fmt.Sprintf("pre:%s#%d", es, k), t})
			}
		}()
	}
	if isSeatManagerMethod(fn) && hasCfg && len(fn.Params) > 0 {
		x.watch = append(x.watch, smWatch(x, x.oldHeap, x.params[fn.Params[0].Name()], cfgVal, "pre.")...)
		for _, p := range fn.Params[1:] {
			if sl, ok := p.Type().Underlying().(*types.Slice); ok && isStringT(sl.Elem()) {
				sv := x.params[p.Name()]
				for i := 0; i < 10; i++ {
					ev := loadPlace(x.oldHeap, elemPlace(sv, IntLit(int64(i))), sl.Elem())
					x.watch = append(x.watch, WatchTerm{fmt.Sprintf("pre:%s[%d]#0", p.Name(), i), ev.T})
				}
			}
		}
	}
	// run
	final, results := x.runBody(fn, st)
	// postconditions
	post := x.newCEnv(final)
	post.old = x.oldHeap
	for i, r := range results {
		if i < len(c.Returns) {
			post.vars[c.Returns[i]] = r
		}
		post.vars[fmt.Sprintf("result%d", i)] = r
		if i == 0 {
			post.vars["result"] = r
		}
	}
	x.cover(final, "return")
	// watch list: results and any debugging expressions (post-state)
	if isSeatManagerMethod(fn) && hasCfg && len(fn.Params) > 0 {
		x.watch = append(x.watch, smWatch(x, final.heap, x.params[fn.Params[0].Name()], cfgVal, "post.")...)
	}
	for i, r := range results {
		var fl []*Term
		flatten(r, &fl)
		for k, t := range fl {
			x.watch = append(x.watch, WatchTerm{fmt.Sprintf("result%d#%d", i, k), t})
		}
	}
	for _, es := range debugEvalExprs {
		e, err := parseCExpr(es)
		if err != nil {
			panic(UnsupportedError{err.Error()})
		}
		var fl []*Term
		flatten(post.eval(e), &fl)
		for k, t := range fl {
			x.watch = append(x.watch, WatchTerm{fmt.Sprintf("%s#%d", es, k), t})
		}
	}
	for i, e := range c.Ensures {
		lbl := e.Label
		if lbl == "" {
			lbl = fmt.Sprint(i)
		}
		goal := x.evalClause(post, e, res.Name)
		note := e.Text
		// vacuity guard: the antecedent of an implication clause must be reachable
		if e.Expr.Op == "==>" {
			func() {
				defer func() { recover() }()
				ante := post.evalBool(e.Expr.Args[0])
				if !ante.IsTrue() {
					name := fmt.Sprintf("%s/cover:%s", res.Name, lbl)
					if x.hasCfg {
						name += fmt.Sprintf("@%s=%d", x.cfgVar, x.cfgVal)
					}
					name += x.cfgSuffix
					hy := append(append([]*Term{}, x.hyps...), final.pc, ante)
					x.obls = append(x.obls, &Obligation{Name: name, Group: name, Func: res.Name, Kind: "cover", Hyps: hy, Cover: true, Props: c.Props,
						Note: "the antecedent of clause " + lbl + " is reachable"})
				}
			}()
		}
		for _, f := range P.findingsFor(res.Name) {
			if f.Label != lbl || (f.Kind != "" && f.Kind != "ensures") {
				continue
			}
			ex, err := parseCExpr(f.Except)
			if err != nil {
				panic(UnsupportedError{"known_findings.json: " + err.Error()})
			}
			exc := x.evalClause(post, &Clause{Expr: ex, Text: f.Except}, res.Name)
			// is the recorded finding still there?  hyps /\ pc /\ except /\ not clause  satisfiable
			name := fmt.Sprintf("%s/finding:%s", res.Name, lbl)
			if x.hasCfg {
				name += fmt.Sprintf("@%s=%d", x.cfgVar, x.cfgVal)
			}
			name += x.cfgSuffix
			hy := append(append([]*Term{}, x.hyps...), final.pc, exc, Not(goal))
			x.obls = append(x.obls, &Obligation{Name: name, Group: name, Func: res.Name, Kind: "finding", Hyps: hy, Cover: true, Props: c.Props, FProp: f.Property,
				Note: fmt.Sprintf("%s/%s: %s", res.Name, lbl, f.What), Watch: x.watch})
			goal = Implies(Not(exc), goal)
			note += "   [claimed outside the recorded finding: " + f.Except + "]"
		}
		clauseHasFinding := false
		for _, f := range P.findingsFor(res.Name) {
			if f.Label == lbl && (f.Kind == "" || f.Kind == "ensures") {
				clauseHasFinding = true
			}
		}
		if c.RetSplit && len(x.topRets) > 1 && !clauseHasFinding {
			// one set of obligations per return statement: the clause is evaluated in that return's own
			// state, so no goal has to reason about the merged exit state
			for ri, r := range x.topRets {
				if r.st.pc.IsFalse() {
					continue
				}
				pr := x.newCEnv(r.st)
				pr.old = x.oldHeap
				for i, rv := range r.results {
					if i < len(c.Returns) {
						pr.vars[c.Returns[i]] = rv
					}
					pr.vars[fmt.Sprintf("result%d", i)] = rv
					if i == 0 {
						pr.vars["result"] = rv
					}
				}
				g := x.evalClause(pr, e, res.Name)
				n0 := len(x.obls)
				x.oblige(r.st, "ensures", lbl, g, note)
				for _, o := range x.obls[n0:] {
					o.Name += fmt.Sprintf("#ret%d", ri)
				}
			}
			continue
		}
		x.oblige(final, "ensures", lbl, goal, note)
	}
	if c.HasMod {
		x.frameCheck(final, ce, c)
	}
	return res
}

// namedVal: like freshVal but with stable variable names derived from the parameter name.
func namedVal(t types.Type, name string) Val {
	switch kindOf(t) {
	case VScalar:
		return scalarVal(Var(name, sortOfType(t)), t)
	case VPtr:
		return Val{K: VPtr, Typ: t, Prefix: objPrefix(t.Underlying().(*types.Pointer).Elem()), Idx: []*Term{Var(name, SInt)}}
	case VSlice:
		return Val{K: VSlice, Typ: t, Arr: Var(name+".arr", SInt), Off: Var(name+".off", SInt), Len: Var(name+".len", SInt)}
	case VMap:
		return Val{K: VMap, Typ: t, T: Var(name, SInt)}
	case VIface:
		return Val{K: VIface, Typ: t, Tag: Var(name+".tag", SInt), T: Var(name+".ref", SInt)}
	case VFunc:
		return Val{K: VFunc, Typ: t, T: Var(name+".fn", SInt)}
	case VStruct:
		if a, ok := t.Underlying().(*types.Array); ok {
			v := Val{K: VStruct, Typ: t}
			for i := int64(0); i < a.Len(); i++ {
				v.Fields = append(v.Fields, namedVal(a.Elem(), fmt.Sprintf("%s[%d]", name, i)))
			}
			return v
		}
		s := structFields(t)
		v := Val{K: VStruct, Typ: t}
		for i := 0; i < s.NumFields(); i++ {
			v.Fields = append(v.Fields, namedVal(s.Field(i).Type(), name+"."+s.Field(i).Name()))
		}
		return v
	}
	return Val{K: VOpaque, Typ: t}
}

// bindConfigValue: lhs = rhs where rhs is literal under the configuration.
func (x *Exec) bindConfigValue(st *State, ce *CEnv, b ConfigBinding) {
	rhs := ce.evalInt(b.RHS)
	if _, ok := rhs.IntVal(); !ok {
		cfail("configuration binding %s is not a literal", b.RHS)
	}
	if b.LHS.Op == "call" && b.LHS.Args[0].Op == "ident" && b.LHS.Args[0].Name == "len" {
		v := ce.eval(b.LHS.Args[1])
		switch v.K {
		case VMap:
			pre := mapKeyPrefix(v.Typ)
			f := st.heap.Get(pre+"#len", 1, SInt)
			st.heap.Set(pre+"#len", f.Store([]*Term{v.T}, rhs))
			kt, _ := mapTypes(v.Typ)
			if isIntT(kt) {
				n, _ := rhs.IntVal()
				x.denseIntMaps[typeKey(v.Typ)] = [2]int{0, int(n)}
			}
			return
		case VSlice:
			// the slice is loaded from a place: bind that place's #len family
			pl := ce.lvaluePlace(b.LHS.Args[1])
			f := st.heap.Get(pl.Prefix+"#len", len(pl.Idx), SInt)
			st.heap.Set(pl.Prefix+"#len", f.Store(pl.Idx, rhs))
			return
		}
		cfail("len() binding on unsupported value")
	}
	if b.LHS.Op == "ident" {
		if _, isParam := x.params[b.LHS.Name]; isParam {
			for _, p := range x.fn.Params {
				if p.Name() == b.LHS.Name {
					v := scalarVal(rhs, p.Type())
					st.env[p] = v
					x.params[b.LHS.Name] = v
					ce.vars[b.LHS.Name] = v
					return
				}
			}
		}
	}
	pl := ce.lvaluePlace(b.LHS)
	f := st.heap.Get(pl.Prefix, len(pl.Idx), SInt)
	st.heap.Set(pl.Prefix, f.Store(pl.Idx, rhs))
}

// frameCheck: every family may differ from its pre-state only at the locations of the modifies
// clause or at objects allocated during the call.
func (x *Exec) modifiesLocs(ce *CEnv, c *Contract) []hloc {
	var locs []hloc
	defer func() {
		if r := recover(); r != nil {
			if e, ok := r.(CEvalError); ok {
				panic(UnsupportedError{"modifies clause: " + e.msg})
			}
			panic(r)
		}
	}()
	pre := *ce
	pre.heap = x.oldHeap
	for _, m := range c.Modifies {
		locs = append(locs, x.resolveLoc(&pre, m.Expr)...)
	}
	return locs
}

func (x *Exec) frameCheck(final *State, ce *CEnv, c *Contract) {
	x.frameAgainst(final, x.oldHeap, x.modifiesLocs(ce, c), "frame", "", nil)
}

// frameAgainst: every family of st.heap may differ from ref only at the given locations or at
// objects allocated since the function started. only != nil restricts the check to those families.
func (x *Exec) frameAgainst(st *State, ref *Heap, locs []hloc, kind, prefix string, only map[string]bool) {
	byFam := map[string][]hloc{}
	for _, l := range locs {
		byFam[l.fam] = append(byFam[l.fam], l)
	}
	for _, name := range st.heap.Names() {
		if only != nil && !only[name] {
			continue
		}
		fi := famReg[name]
		nf := st.heap.Get(name, fi.arity, fi.sort)
		of := ref.Get(name, fi.arity, fi.sort)
		if nf == of {
			continue
		}
		if strings.HasPrefix(name, "ghost.") || strings.HasSuffix(name, "#released") {
			continue // verifier-internal ghost state
		}
		whole := false
		for _, l := range byFam[name] {
			if l.idx == nil && l.appendFrom == nil {
				whole = true
			}
		}
		if whole {
			continue
		}
		idx := make([]*Term, fi.arity)
		for i := range idx {
			idx[i] = Var(fmt.Sprintf("frame!%s%s!%d", prefix, name, i), SInt)
		}
		var excl []*Term
		if fi.arity > 0 && !strings.HasPrefix(name, "log#") {
			excl = append(excl, Not(And(Le(IntLit(0), idx[0]), Lt(idx[0], x.alloc0))))
		}
		for _, l := range byFam[name] {
			if l.appendFrom != nil {
				if fi.arity > 0 {
					excl = append(excl, Ge(idx[0], l.appendFrom))
				}
				continue
			}
			c := True()
			for i := range l.idx {
				c = And(c, Eq(idx[i], l.idx[i]))
			}
			if l.guard != nil {
				c = And(c, l.guard)
			}
			excl = append(excl, c)
		}
		goal := Or(append(excl, Eq(nf.Select(idx), of.Select(idx)))...)
		x.oblige(st, kind, prefix+name, goal, "only the modifies clause may change "+name)
	}
}

// configCover: requires ==> OR over configuration values of (all bindings hold [and dense maps
// contain every key of the range]). Evaluated without any binding; conjuncts of the precondition
// that cannot be evaluated with a symbolic configuration are skipped (fewer hypotheses).
func (x *Exec) configCover(st *State, c *Contract, fname string) {
	save := x.hasCfg
	x.hasCfg = false
	ce := x.newCEnv(st)
	ce.old = st.heap
	var hyps []*Term
	var collect func(e *CExpr)
	collect = func(e *CExpr) {
		if e.Op == "&&" {
			collect(e.Args[0])
			collect(e.Args[1])
			return
		}
		// expand spec functions at the top level so that their conjuncts can be taken separately
		if e.Op == "call" && e.Args[0].Op == "ident" {
			if sf := x.P.specIn(ce.home, ce.pkg, e.Args[0].Name); sf != nil && len(sf.Params) == len(e.Args)-1 {
				sub := *ce
				sub.vars = map[string]Val{}
				for k, v := range ce.vars {
					sub.vars[k] = v
				}
				okAll := true
				func() {
					defer func() {
						if r := recover(); r != nil {
							okAll = false
						}
					}()
					for i, p := range sf.Params {
						sub.vars[p] = ce.eval(e.Args[i+1])
					}
				}()
				if okAll {
					saveCe := ce
					ce = &sub
					collect(sf.Body)
					ce = saveCe
					return
				}
			}
		}
		func() {
			defer func() { recover() }()
			hyps = append(hyps, ce.evalBool(e))
		}()
	}
	for _, r := range c.Requires {
		collect(r.Expr)
	}
	var alts []*Term
	for m := c.Config.Lo; m <= c.Config.Hi; m++ {
		mv := intVal(IntLit(int64(m)))
		cem := ce.bind(c.Config.Var, mv)
		conj := True()
		for _, b := range c.Config.Bindings {
			l := cem.eval(b.LHS)
			r := cem.evalInt(b.RHS)
			conj = And(conj, Eq(l.T, r))
			if b.LHS.Op == "call" && b.LHS.Args[0].Op == "ident" && b.LHS.Args[0].Name == "len" {
				mv := cem.eval(b.LHS.Args[1])
				if mv.K == VMap {
					if kt, _ := mapTypes(mv.Typ); isIntT(kt) {
						for k := 0; k < m; k++ {
							conj = And(conj, mapDom(st.heap, mv, IntLit(int64(k))))
						}
					}
				}
			}
		}
		alts = append(alts, conj)
	}
	x.hasCfg = save
	o := &Obligation{Name: fname + "/config-cover:" + c.Config.Var, Func: fname, Kind: "config-cover", Hyps: append(append([]*Term{}, x.hyps...), hyps...),
		Goal: Or(alts...), Note: "the precondition implies that one of the configurations " + fmt.Sprintf("%s=%d..%d", c.Config.Var, c.Config.Lo, c.Config.Hi) + " applies", Props: c.Props}
	x.obls = append(x.obls, o)
}

// splitCover: under the configuration binding, the precondition implies that every split location
// lies within its range (so the enumerated combinations are exhaustive).
func (x *Exec) splitCover(st *State, c *Contract, fname string, cfgVal int, hasCfg bool) {
	save := x.splitVals
	x.splitVals = nil
	ce := x.newCEnv(st)
	ce.old = st.heap
	var hyps []*Term
	for _, r := range c.Requires {
		func() {
			defer func() { recover() }()
			hyps = append(hyps, ce.evalBool(r.Expr))
		}()
	}
	goal := True()
	for _, sp := range c.Splits {
		func() {
			defer func() { recover() }()
			v := ce.evalInt(sp.LHS)
			goal = And(goal, Le(ce.evalInt(sp.Lo), v), Le(v, ce.evalInt(sp.Hi)))
		}()
	}
	x.splitVals = save
	name := fname + "/split-cover"
	if hasCfg {
		name += fmt.Sprintf("@%s=%d", x.cfgVar, cfgVal)
	}
	x.obls = append(x.obls, &Obligation{Name: name, Group: name, Func: fname, Kind: "config-cover", Hyps: append(append([]*Term{}, x.hyps...), hyps...), Goal: goal,
		Note: "the precondition bounds every split location by its range", Props: c.Props})
}
