package main

import (
	"fmt"
	"go/types"
	"strings"

	"golang.org/x/tools/go/ssa"
)

type FuncResult struct {
	Fn        *ssa.Function
	Name      string
	Contract  *Contract
	Config    string
	Obls      []*Obligation
	Err       string // generation failure
	Trusted   []string
	Loops     []string
	GenTime   float64
	Skipped   string
}

func resetGlobals() {
	resetTerms()
	resetFamilies()
	initialBases = map[string]*HNode{}
	quantCounter = 0
	cfgCacheReset()
}

func cfgCacheReset() {}

var defaultChecks = []string{"nil", "bounds", "div", "nilmap", "panic", "typeassert", "lock", "randarg", "copylen"}

// verifyFunc generates the obligations of one function under one configuration value.
func (P *Prog) verifyFunc(fn *ssa.Function, c *Contract, cfgVal int, hasCfg bool) (res *FuncResult) {
	resetGlobals()
	res = &FuncResult{Fn: fn, Name: shortFuncName(fn), Contract: c}
	x := &Exec{P: P, fn: fn, contract: c, trusted: map[string]bool{}, safetyN: map[string]int{}, checks: map[string]bool{},
		params: map[string]Val{}, denseIntMaps: map[string][2]int{}, callN: map[string]int{}}
	for _, k := range defaultChecks {
		x.checks[k] = true
	}
	if hasCfg {
		x.hasCfg = true
		x.cfgVar = c.Config.Var
		x.cfgVal = cfgVal
		res.Config = fmt.Sprintf("%s=%d", x.cfgVar, cfgVal)
	}
	defer func() {
		if r := recover(); r != nil {
			switch e := r.(type) {
			case UnsupportedError:
				res.Err = "unsupported: " + e.msg
			case CEvalError:
				res.Err = "contract error: " + e.msg
			default:
				panic(r)
			}
		}
		res.Obls = x.obls
		for t := range x.trusted {
			res.Trusted = append(res.Trusted, t)
		}
	}()
	st := &State{pc: True(), env: map[ssa.Value]Val{}, heap: NewHeap()}
	x.alloc0 = Var("alloc0", SInt)
	st.alloc = x.alloc0
	x.assumeGlobal(Ge(x.alloc0, IntLit(1)))
	for _, p := range fn.Params {
		v := namedVal(p.Type(), p.Name())
		st.env[p] = v
		x.params[p.Name()] = v
		x.noteLoaded(st, v)
	}
	for _, fv := range fn.FreeVars {
		v := namedVal(fv.Type(), fv.Name())
		st.env[fv] = v
		x.params[fv.Name()] = v
		x.noteLoaded(st, v)
	}
	// log starts at a symbolic position; contracts talk about ncalls() - old(ncalls())
	// configuration bindings
	ce := x.newCEnv(st)
	if hasCfg {
		for _, b := range c.Config.Bindings {
			x.bindConfigValue(st, ce, b)
		}
	}
	x.oldHeap = st.heap.Clone()
	ce = x.newCEnv(st)
	ce.old = x.oldHeap
	// axioms of every contract file (package-level facts)
	for _, cf := range P.cfiles {
		for _, a := range cf.Axioms {
			ace := *ce
			ace.pkg = P.spkgs[cf.Pkg].Pkg
			x.assumeGlobal(x.evalClause(&ace, a, "axiom"))
			x.trust("axiom (" + ace.pkg.Name() + "): " + a.Text)
		}
	}
	for _, l := range c.Lets {
		v := ce.eval(l.Expr)
		ce.vars[l.Name] = v
		x.params[l.Name] = v
	}
	for _, r := range c.Requires {
		x.assumeGlobal(x.evalClause(ce, r, res.Name))
	}
	x.cover(st, "requires")
	// run
	final, results := x.runBody(fn, st)
	// postconditions
	post := x.newCEnv(final)
	post.old = x.oldHeap
	for i, r := range results {
		if i < len(c.Returns) {
			post.vars[c.Returns[i]] = r
		}
		post.vars[fmt.Sprintf("result%d", i)] = r
		if i == 0 {
			post.vars["result"] = r
		}
	}
	x.cover(final, "return")
	for i, e := range c.Ensures {
		lbl := e.Label
		if lbl == "" {
			lbl = fmt.Sprint(i)
		}
		x.oblige(final, "ensures", lbl, x.evalClause(post, e, res.Name), e.Text)
	}
	if c.HasMod {
		x.frameCheck(final, ce, c)
	}
	return res
}

// namedVal: like freshVal but with stable variable names derived from the parameter name.
func namedVal(t types.Type, name string) Val {
	switch kindOf(t) {
	case VScalar:
		return scalarVal(Var(name, sortOfType(t)), t)
	case VPtr:
		return Val{K: VPtr, Typ: t, Prefix: objPrefix(t.Underlying().(*types.Pointer).Elem()), Idx: []*Term{Var(name, SInt)}}
	case VSlice:
		return Val{K: VSlice, Typ: t, Arr: Var(name+".arr", SInt), Off: Var(name+".off", SInt), Len: Var(name+".len", SInt)}
	case VMap:
		return Val{K: VMap, Typ: t, T: Var(name, SInt)}
	case VIface:
		return Val{K: VIface, Typ: t, Tag: Var(name+".tag", SInt), T: Var(name+".ref", SInt)}
	case VFunc:
		return Val{K: VFunc, Typ: t, T: Var(name+".fn", SInt)}
	case VStruct:
		if a, ok := t.Underlying().(*types.Array); ok {
			v := Val{K: VStruct, Typ: t}
			for i := int64(0); i < a.Len(); i++ {
				v.Fields = append(v.Fields, namedVal(a.Elem(), fmt.Sprintf("%s[%d]", name, i)))
			}
			return v
		}
		s := structFields(t)
		v := Val{K: VStruct, Typ: t}
		for i := 0; i < s.NumFields(); i++ {
			v.Fields = append(v.Fields, namedVal(s.Field(i).Type(), name+"."+s.Field(i).Name()))
		}
		return v
	}
	return Val{K: VOpaque, Typ: t}
}

// bindConfigValue: lhs = rhs where rhs is literal under the configuration.
func (x *Exec) bindConfigValue(st *State, ce *CEnv, b ConfigBinding) {
	rhs := ce.evalInt(b.RHS)
	if _, ok := rhs.IntVal(); !ok {
		cfail("configuration binding %s is not a literal", b.RHS)
	}
	if b.LHS.Op == "call" && b.LHS.Args[0].Op == "ident" && b.LHS.Args[0].Name == "len" {
		v := ce.eval(b.LHS.Args[1])
		switch v.K {
		case VMap:
			pre := mapKeyPrefix(v.Typ)
			f := st.heap.Get(pre+"#len", 1, SInt)
			st.heap.Set(pre+"#len", f.Store([]*Term{v.T}, rhs))
			kt, _ := mapTypes(v.Typ)
			if isIntT(kt) {
				n, _ := rhs.IntVal()
				x.denseIntMaps[typeKey(v.Typ)] = [2]int{0, int(n)}
			}
			return
		case VSlice:
			// the slice is loaded from a place: bind that place's #len family
			pl := ce.lvaluePlace(b.LHS.Args[1])
			f := st.heap.Get(pl.Prefix+"#len", len(pl.Idx), SInt)
			st.heap.Set(pl.Prefix+"#len", f.Store(pl.Idx, rhs))
			return
		}
		cfail("len() binding on unsupported value")
	}
	pl := ce.lvaluePlace(b.LHS)
	f := st.heap.Get(pl.Prefix, len(pl.Idx), SInt)
	st.heap.Set(pl.Prefix, f.Store(pl.Idx, rhs))
}

// frameCheck: every family may differ from its pre-state only at the locations of the modifies
// clause or at objects allocated during the call.
func (x *Exec) frameCheck(final *State, ce *CEnv, c *Contract) {
	var locs []hloc
	func() {
		defer func() {
			if r := recover(); r != nil {
				if e, ok := r.(CEvalError); ok {
					panic(UnsupportedError{"modifies clause: " + e.msg})
				}
				panic(r)
			}
		}()
		pre := *ce
		pre.heap = x.oldHeap
		for _, m := range c.Modifies {
			locs = append(locs, x.resolveLoc(&pre, m.Expr)...)
		}
	}()
	byFam := map[string][]hloc{}
	for _, l := range locs {
		byFam[l.fam] = append(byFam[l.fam], l)
	}
	for _, name := range final.heap.Names() {
		fi := famReg[name]
		nf := final.heap.Get(name, fi.arity, fi.sort)
		of := x.oldHeap.Get(name, fi.arity, fi.sort)
		if nf == of {
			continue
		}
		if strings.HasPrefix(name, "ghost.") {
			continue
		}
		whole := false
		for _, l := range byFam[name] {
			if l.idx == nil {
				whole = true
			}
		}
		if whole {
			continue
		}
		idx := make([]*Term, fi.arity)
		for i := range idx {
			idx[i] = Var(fmt.Sprintf("frame!%s!%d", name, i), SInt)
		}
		var excl []*Term
		if fi.arity > 0 && !strings.HasPrefix(name, "log#") {
			excl = append(excl, Not(And(Le(IntLit(0), idx[0]), Lt(idx[0], x.alloc0))))
		}
		for _, l := range byFam[name] {
			c := True()
			for i := range l.idx {
				c = And(c, Eq(idx[i], l.idx[i]))
			}
			excl = append(excl, c)
		}
		goal := Or(append(excl, Eq(nf.Select(idx), of.Select(idx)))...)
		x.oblige(final, "frame", name, goal, "only the modifies clause may change "+name)
	}
}
