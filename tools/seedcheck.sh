#!/bin/sh
# usage: seedcheck.sh <seed dir with _out/> <name>
# Confirms in a scratch worktree: builds, stable baseline tests pass with the patch, demo fails with it and passes without.
export GOFLAGS=-mod=mod GOPROXY=off GOSUMDB=off GOTOOLCHAIN=local
src="$1"; name="$2"
wt=/tmp/seedcheck_$name
git -C /repo worktree remove --force $wt >/dev/null 2>&1
git -C /repo worktree add --detach $wt HEAD >/dev/null 2>&1 || { echo "worktree failed"; exit 2; }
cd $wt
demo=$(ls $src/_out/*_test.go | head -1)
rel=$(head -1 "$demo" | sed -n 's#^// *path: *##p')
[ -z "$rel" ] && rel="zz_seed_demo_test.go"
cp "$demo" "$wt/$rel"
pkg=./$(dirname "$rel")
echo "== $name demo=$rel"
go test -vet=off -count=1 -timeout 120s -run 'TestSeedDemo' $pkg >/tmp/seedcheck_$name.base.log 2>&1; echo "demo without patch: exit $?"
git apply $src/_out/patch.diff || { echo "patch does not apply"; exit 2; }
go build ./... || { echo "build fails"; exit 2; }
go test -vet=off -count=1 -timeout 120s -run 'TestSeedDemo' $pkg >/tmp/seedcheck_$name.patched.log 2>&1; echo "demo with patch: exit $?"
rm -f "$wt/$rel"
go test -vet=off -count=1 -timeout 10m ./seat_manager/ ./actor/ ./open_game_manager/ 2>&1 | grep -E "^(ok|FAIL|---)"
go test -vet=off -count=1 -timeout 5m -run 'TestTableGame_Flop_Settlement' ./testcases/ 2>&1 | grep -E "^(ok|FAIL|---)"
cd /; git -C /repo worktree remove --force $wt
