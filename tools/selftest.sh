#!/bin/sh
# usage: tools/selftest.sh
# Must-pass corpus: harmless edits of /repo (renamed locals, added logging, equivalent loop bound,
# reordered independent statements) applied one at a time; the quick checks of the properties the
# edited function carries must stay silent (exit 0, no VIOLATION line).
# Must-fail corpus: every seeded/<id>/patch.diff; the checks named in its meta.json must report a violation.
# Evidence and replays of these runs go to /verif/.work/seedrun, never to /verif/evidence.
cd /verif || exit 2
rc=0
run() { # patch expected(pass|fail) props...
  patch="$1"; want="$2"; shift 2
  out=$(tools/seedrun.sh "$patch" "$@")
  echo "$patch"; echo "$out"
  if [ "$want" = pass ]; then
    echo "$out" | grep -q "exit [^0]" && { echo "  FALSE ALARM"; rc=1; }
  else
    echo "$out" | grep -q "exit 1" || { echo "  MISSED"; rc=1; }
  fi
}
run selftest/mustpass/01_rename_local_rotatePositions.diff pass C04 C08
run selftest/mustpass/02_added_logging_PlayerFold.diff pass C10 C14
run selftest/mustpass/03_equivalent_loop_bound_nextOccupiedSeatID.diff pass C04
run selftest/mustpass/04_reordered_independent_resets_continueGame.diff pass C07 C15
run selftest/mustpass/05_renamed_locals_and_temp_manager_PlayerBet.diff pass C17
run selftest/mustpass/06_renamed_local_updatePlayerPositions.diff pass C06
run selftest/mustpass/07_reordered_independent_inits_CreateTable.diff pass C12 C17
run selftest/mustpass/08_renamed_local_and_logging_gate_closure_player_runner.diff pass C08 C19
for d in seeded/C*/; do
  id=$(basename $d)
  props=$(python3 -c "import json,sys; m=json.load(open('$d/meta.json')); print(' '.join(m.get('run_checks',[m['property']])))")
  gap=$(python3 -c "import json; print(json.load(open('$d/meta.json')).get('expected',''))")
  if [ "$gap" = missed ]; then
    # documented gap (DESIGN 12.11): run it, report, do not count as a failure of the corpus
    echo "$d/patch.diff (documented gap)"; tools/seedrun.sh $d/patch.diff $props
    continue
  fi
  run $d/patch.diff fail $props
done
for f in selftest/mustfail/*.diff; do
  prop=$(basename $f | cut -d_ -f1)
  run $f fail $prop
done
exit $rc
