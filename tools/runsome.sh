#!/bin/sh
# usage: tools/runsome.sh <log> <tier> <property>...
cd /verif || exit 2
log="$1"; tier="$2"; shift 2
: > "$log"
for P in "$@"; do
  s=$(date +%s)
  ./check $P --tier $tier > /verif/.work/runall_$P.out 2>&1
  rc=$?
  e=$(date +%s)
  echo "$P exit=$rc wall=$((e-s))s $(grep -c '^VIOLATION' /verif/.work/runall_$P.out) violation(s) $(grep -c '^KNOWN-FINDING' /verif/.work/runall_$P.out) known | $(tail -1 /verif/.work/runall_$P.out | cut -c1-120)" >> "$log"
done
echo done >> "$log"
