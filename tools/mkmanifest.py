#!/usr/bin/env python3
# Regenerates /verif/MANIFEST.json from the table below (kept in one place so that the manifest stays valid).
import json, subprocess
props=[json.loads(l) for l in open('/verif/properties.jsonl')]
TECH="contracts on the real functions + weakest-precondition VCs over go/ssa, discharged by z3/cvc5 (govc)"
claimed={
 "C04":("Every clause of the dead-button rule is a postcondition of rotatePositions / initPositions / the circular scans, proved for all seat-manager states satisfying SmWF, per seat count 2..10; two recorded findings are excluded by an explicit class predicate.",
        "Sequential semantics only. Trusted: sort.Slice / rand.Shuffle permutation models, printState (debug output), govc. Findings: Dealer==BB and refused rotation with two live players (known_findings.json)."),
 "C17":("Each manager method is proved to make exactly one call, on the engine registered under the given id, to the same-named engine method with the same arguments, and to return its result; unknown ids yield the sentinel with no call; registry frame proved.",
        "sync.Map is modelled as a ghost map; engine calls go through the opaque TableEngine interface and are recorded in a ghost call log (their own behaviour is the other properties). Interleavings across goroutines are not modelled."),
 "C18":("requestMove / requestAI / calcAction: exactly one adapter call, under the bot's own id, realising an allowed action with a legal amount, for every random draw (rand results are unconstrained values in range).",
        "Assumed shape of engine snapshots (<= 9 allowed actions with known names, pay only during ante/blind collection, non-nil players). 'Bot tables play out' (liveness) and the humanized delay are not decided. UpdateTableState's staleness filter is not yet under contract."),
 "C19":("automate and requestMove: priority pass > (suspended: ready > check > fold > mandatory pay of the posted size), never call/bet/raise/all-in, nothing before the time bank fires except pass / suspended.",
        "timebank.NewTask only recorded (that the timer waits is external). Idle/Suspend bookkeeping inside the timer closure is not under contract."),
 "C20":("Observer: for every snapshot with a hand state, a non-system observer's callback receives hidden(GameState) (pokerface's AsObserver is verified against its module-cache source); adapter: the table handed to the actor is a fresh object whose State is fresh.",
        "json.Unmarshal is modelled as producing fresh references one level deep (deeper disjointness is the JSON library's). Hand states have at most ten players."),
 "C10":("Each Player<Action> and game.<Action>: refused (not playing / not in hand / out of turn) => error, no backend call, no change to last action, statistics or hand state; accepted => exactly one backend call, last action published with player, seat, action, round, hand, one action event.",
        "'Allowed for them' beyond whose turn it is is pokerface's (GameBackend is an open interface, logged). PlayerReady/PlayerPay contracts cover Ready only so far. Concurrency is reduced to C16's lock discipline."),
 "C13":("game.<Action>: backend error => same error returned, g.gs unchanged (same pointer), nothing enqueued; Player<Action>: error => table untouched. Success => the backend result is applied exactly once.",
        "updateGameState (channel send) carries a trusted contract. Engine-initiated steps (ante/blind/ready completion closures, onRoundClosed) are not yet under contract."),
 "C14":("Per accepted action: counters move by exactly the stated amounts, fold flag/round set only by fold, every did-X flag implies its chance flag (StatsWF) for all players, at most one 3-bet flag, other players' statistics untouched (except the 3-bet reset).",
        "Chance-flag computation (updateCurrentPlayerGameStatistics), settleGame's showdown flags and continueGame's reset are not yet under contract."),
}
na_reason="check not built yet (work in progress; will be claimed or justified as not applicable)"
m={"version":1,
 "setup_cmd":"cd /verif/govc && GOFLAGS=-mod=mod GOPROXY=off GOSUMDB=off GOTOOLCHAIN=local go build -o /verif/bin/govc .",
 "hooks":{"guard":"verif","enable":"-tags verif: contract files zz_contracts_verif.go are comment-only Go files compiled only under this tag; govc loads /repo with the tag on",
   "baseline_off_cmd":"cd /repo && GOFLAGS=-mod=mod GOPROXY=off GOSUMDB=off GOTOOLCHAIN=local go test -vet=off -count=1 -timeout 25m ./...",
   "source_commits":subprocess.run("git -C /repo log --format=%h --grep='^verif hook'",shell=True,capture_output=True,text=True).stdout.split(),
   "add_only":True},
 "engines":[{"name":"govc","path":"/verif/govc","serves_properties":sorted(claimed.keys()),"kind_free_text":"VC generator over go/ssa of the real code + contracts in //@ comments; obligations discharged by z3 5.1.0 / cvc5 1.0 / z3 4.8.12"}],
 "checks":[],
 "notes":"Defects repaired in /repo as 'fix:' commits and recorded in /verif/known_findings.json (fixed entries); remaining genuine defects are known findings. See DESIGN.md.",
 "not_applicable":[]}
for p in props:
    pid=p["id"]
    if pid in claimed:
        text,note=claimed[pid]
        m["checks"].append({"property_id":pid,"quick_cmd":f"./check {pid}","thorough_cmd":f"./check {pid} --tier thorough","evidence_file":f"/verif/evidence/{pid}.json",
          "replay_cmd_template":"cat {path}","engine":"govc","level_claimed":{"category":"proof","text":text,"design_ref":"DESIGN.md section 5, "+pid},"level_note":note,"technique":TECH})
    else:
        m["not_applicable"].append({"property_id":pid,"reason":na_reason})
json.dump(m,open('/verif/MANIFEST.json','w'),indent=1)
print("claimed",len(m["checks"]),"not applicable",len(m["not_applicable"]))
