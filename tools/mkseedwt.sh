#!/bin/sh
# usage: mkseedwt.sh <name>   -> /tmp/r3_<name>: scratch worktree of /repo HEAD without the contract files (committed there, detached)
wt=/tmp/r3_$1
git -C /repo worktree remove --force $wt >/dev/null 2>&1
git -C /repo worktree add --detach $wt HEAD >/dev/null 2>&1 || { echo "worktree failed"; exit 2; }
cd $wt && git rm -q $(git ls-files | grep zz_contracts_verif.go) && git -c user.name=x -c user.email=x@x commit -qm "scratch: no contract files" && echo $wt
