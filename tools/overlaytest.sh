#!/bin/sh
# usage: overlaytest.sh <test file with '// path: rel/path_test.go' first line> [go test args...]
# Runs an in-package test against /repo without writing into /repo (go test -overlay).
REPO=${REPO:-/repo}
export GOFLAGS=-mod=mod GOPROXY=off GOSUMDB=off GOTOOLCHAIN=local
f="$1"; shift
rel=$(head -1 "$f" | sed -n 's#^// *path: *##p')
[ -z "$rel" ] && { echo "no path comment"; exit 2; }
mkdir -p /verif/.work/overlay
ov=/verif/.work/overlay/ov_$$.json
printf '{"Replace":{"%s/%s":"%s"}}' "$REPO" "$rel" "$f" > $ov
cd $REPO && go test -overlay $ov -vet=off -count=1 -timeout 60s "$@" ./$(dirname $rel)/
rc=$?
rm -f $ov
exit $rc
