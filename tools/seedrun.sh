#!/bin/sh
# usage: seedrun.sh <patch.diff> <property> [more properties...]
# Applies a seeded change to /repo, runs the quick checks of the given properties, reverts.
patch="$1"; shift
cd /repo || exit 2
git diff --quiet || { echo "/repo has uncommitted changes"; exit 2; }
git apply "$patch" || { echo "patch does not apply"; exit 2; }
for p in "$@"; do
  /verif/bin/govc check -prop $p -tier quick > /tmp/seedrun_$p.log 2>&1
  rc=$?
  echo "  $p: exit $rc; $(grep -c '^VIOLATION' /tmp/seedrun_$p.log) violation line(s); $(grep '^VIOLATION' /tmp/seedrun_$p.log | head -2 | sed -E 's/replay=[^ ]+ //' | cut -c1-200)"
done
git checkout -- . 
