#!/bin/sh
# usage: seedrun.sh <patch.diff> <property> [more properties...]
# Applies a seeded change to /repo, runs the quick checks of the given properties (work files,
# replays and evidence go to /verif/.work/seedrun, not to /verif/evidence), reverts.
export GOFLAGS=-mod=mod GOPROXY=off GOSUMDB=off GOTOOLCHAIN=local
patch="$1"; shift
case "$patch" in /*) ;; *) patch="$(pwd)/$patch";; esac
cd /repo || exit 2
git diff --quiet || { echo "/repo has uncommitted changes"; exit 2; }
git apply "$patch" || { echo "patch does not apply"; exit 2; }
mkdir -p /verif/.work/seedrun
for p in "$@"; do
  log=/verif/.work/seedrun/$(basename $(dirname "$patch"))_$(basename "$patch" .diff)_$p.log
  /verif/bin/govc check -prop $p -tier quick -out /verif/.work/seedrun > $log 2>&1
  rc=$?
  echo "  $p: exit $rc; $(grep -c '^VIOLATION' $log) violation line(s); $(grep '^VIOLATION' $log | head -3 | sed -E 's/replay=[^ ]+\/([^ /]+)/replay=\1/' | cut -c1-220 | tr '\n' '|')"
done
git checkout -- .
