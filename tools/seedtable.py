#!/usr/bin/env python3
# usage: tools/seedtable.py <selftest log>  -> prints a markdown table and fills detected_by in seeded/*/meta.json
import sys, re, json, os
log=open(sys.argv[1]).read().split('\n')
cur=None; res={}
for l in log:
    if l.endswith('.diff') and not l.startswith(' '):
        cur=l.strip(); res[cur]=[]
    elif l.startswith('  C') and cur:
        m=re.match(r'  (C\d\d): exit (\d+); (\d+) violation line\(s\); (.*)', l)
        if m:
            obl=sorted(set(re.findall(r'obligation=(\S+)', m.group(4))))
            confirmed = 'no-failing-input-found' not in m.group(4) and int(m.group(3))>0
            res[cur].append((m.group(1), int(m.group(2)), int(m.group(3)), obl, m.group(4)))
    elif ('MISSED' in l or 'FALSE ALARM' in l) and cur:
        res[cur].append(('!!', l.strip(), 0, [], ''))
print('| change | what it breaks | check(s) run | result | first failed obligation |')
print('|---|---|---|---|---|')
for patch, rs in res.items():
    d=os.path.dirname(patch)
    what=''
    if patch.startswith('seeded/'):
        m=json.load(open('/verif/'+d+'/meta.json'))
        what=m['change']
    else:
        what=os.path.basename(patch)[:-5].replace('_',' ')
    checks=', '.join(r[0] for r in rs if r[0]!='!!')
    bad=[r for r in rs if r[0]=='!!']
    det=[r for r in rs if r[0]!='!!' and r[1]==1]
    if 'mustpass' in patch:
        result='silent (exit 0)' if not bad and not det else '**FALSE ALARM**'
        first=''
    else:
        result=('caught by '+', '.join(r[0] for r in det)) if det else '**missed**'
        first=det[0][3][0] if det and det[0][3] else ''
        if det and 'no-failing-input-found' in det[0][4] and not any('no-failing-input-found' not in x for x in det[0][4].split('|') if 'VIOLATION' in x):
            result+=' (no-failing-input-found)'
    print('| `%s` | %s | %s | %s | `%s` |' % (patch, what.replace('|','/'), checks, result, first))
    if patch.startswith('seeded/'):
        mp='/verif/'+d+'/meta.json'
        m=json.load(open(mp))
        m['detected_by']=[{'check':r[0],'exit':r[1],'violation_lines':r[2],'obligations':r[3][:3]} for r in rs if r[0]!='!!']
        m['what_i_ran']='tools/selftest.sh (git apply the patch in /repo, ./check <id> quick tier with evidence redirected to .work/seedrun, git checkout -- .)'
        json.dump(m,open(mp,'w'),indent=1)
