#!/bin/sh
# usage: tools/rebaseline.sh <log> <property>...   (development: regenerates obligations.baseline.json entries)
export GOFLAGS=-mod=mod GOPROXY=off GOSUMDB=off GOTOOLCHAIN=local
log="$1"; shift
cd /verif || exit 2
cp -f bin/govc bin/govc_bl || exit 2
: > "$log"
for P in "$@"; do
  echo "== $P" >> "$log"
  /usr/bin/time -f "%es %MKB" ./bin/govc_bl check -prop $P -tier quick -update-baseline 2>&1 | grep -E "^property|VIOLATION|KNOWN|terminated|KB$|^panic" | cut -c1-300 >> "$log"
done
echo "== done" >> "$log"
