#!/bin/sh
# usage: seedrun_wt.sh <patch.diff> <property> [more properties...]
# Like seedrun.sh but leaves /repo alone: the seeded change is applied to a scratch worktree of /repo's HEAD
# (under /tmp, removed afterwards) and the quick checks are run against that tree (govc check -repo).
export GOFLAGS=-mod=mod GOPROXY=off GOSUMDB=off GOTOOLCHAIN=local
patch="$1"; shift
case "$patch" in /*) ;; *) patch="$(pwd)/$patch";; esac
name=$(basename $(dirname "$patch"))
wt=/tmp/sr_$name
git -C /repo worktree remove --force $wt >/dev/null 2>&1
git -C /repo worktree add --detach $wt HEAD >/dev/null 2>&1 || { echo "worktree failed"; exit 2; }
(cd $wt && git apply "$patch") || { echo "patch does not apply"; git -C /repo worktree remove --force $wt; exit 2; }
mkdir -p /verif/.work/seedrun
for p in "$@"; do
  log=/verif/.work/seedrun/${name}_$(basename "$patch" .diff)_$p.log
  /verif/bin/govc check -repo $wt -prop $p -tier quick -out /verif/.work/seedrun/$name > $log 2>&1
  rc=$?
  echo "  $name $p: exit $rc; $(grep -c '^VIOLATION' $log) violation line(s); $(grep '^VIOLATION' $log | head -3 | sed -E 's/replay=[^ ]+\/([^ /]+)/replay=\1/' | cut -c1-220 | tr '\n' '|')"
done
git -C /repo worktree remove --force $wt
