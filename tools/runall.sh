#!/bin/sh
# usage: tools/runall.sh <log> [tier]   runs the registered command of every property in turn
cd /verif || exit 2
log="$1"; tier="${2:-quick}"
: > "$log"
for P in C01 C02 C03 C04 C05 C06 C07 C08 C09 C10 C11 C12 C13 C14 C15 C16 C17 C18 C19 C20; do
  s=$(date +%s)
  ./check $P --tier $tier > /verif/.work/runall_$P.out 2>&1
  rc=$?
  e=$(date +%s)
  echo "$P exit=$rc wall=$((e-s))s $(grep -c '^VIOLATION' /verif/.work/runall_$P.out) violation(s) $(grep -c '^KNOWN-FINDING' /verif/.work/runall_$P.out) known | $(tail -1 /verif/.work/runall_$P.out | cut -c1-120)" >> "$log"
done
echo done >> "$log"
