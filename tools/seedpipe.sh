#!/bin/sh
# usage: seedpipe.sh <name e.g. C11c> <property> [more...]
# confirm a sub-agent's seeded change (seedcheck.sh), keep it under seeded/<name>/, run the quick checks against it in a scratch worktree
name="$1"; shift
src=/tmp/r3_$name
cd /verif
tools/seedcheck.sh $src $name > /tmp/seedcheck_$name.out 2>&1
cat /tmp/seedcheck_$name.out
mkdir -p seeded/$name
cp $src/_out/patch.diff seeded/$name/patch.diff
cp $src/_out/*_test.go seeded/$name/
[ -f $src/_out/notes.md ] && cp $src/_out/notes.md seeded/$name/notes.md
git -C /repo worktree remove --force $src >/dev/null 2>&1
tools/seedrun_wt.sh seeded/$name/patch.diff "$@"
